"""C28 (RPC client), C29 (agent log pipe), C34 (Serf lifecycle): small concurrency properties.
spec/RPCClient.tla, spec/LogPipe.tla, spec/Lifecycle.tla; driver harness/cmd/conc; scheduler harness/internal/concx."""
PROPS = ["C28", "C29", "C34"]
# id: (level, what the check establishes, trusted base / assumptions, technique, DESIGN.md section)
_TECH = ('TLA+ spec + TLC exhaustive check of all interleavings of small programs; systematic schedule enumeration of the '
         'yield-instrumented real code by a cooperative scheduler (child processes, panics recorded); TLC trace validation '
         '(subset construction over unlogged locals) with property monitors on the observed state')
CLAIMS = {
    'C28': (
        'model_checking',
        'TLC checks spec/RPCClient.tla exhaustively (listener against 1-2 user threads doing Stop / Close / feed on 1-2 stream, '
        'monitor or query subscriptions with up to 3 records on the wire, every interleaving at statement / lock-scope '
        'granularity): no panic, no send after close, every subscriber channel closed exactly once -- except for the recorded '
        'finding, which must be reachable in the model and is tagged record_in_flight_at_close; scenarios with nothing in flight '
        'hold without waiver.  The real client.RPCClient, yield-instrumented from the working tree and talking to a scripted '
        'loopback msgpack server, is run under every schedule with <= 1 preemption up to a budget (thorough also <= 2) plus '
        'random schedules; its own listen goroutine is scheduled too; each step is validated by TLC against the spec and the '
        'C28 monitor evaluated on the observed channels (closed?, values received) and on process survival.',
        'Trusts TLC, the instrumenter, the scheduler (goroutine states from runtime.Stack decide blocked-in-runtime), the scripted '
        'server.  Known finding: send on a subscriber channel closed by Stop/Close between lookup and send (panic in the listen '
        'goroutine).  Subscriptions are initialised before the run; channel capacity 64.',
        _TECH, '5 C28',
    ),
    'C29': (
        'model_checking',
        'TLC checks spec/LogPipe.tla exhaustively (GatedWriter: 1-3 writers x 1-3 lines against Flush with the buffered append '
        'as read-modify-write; logWriter ring of size 1-3: 1-3 writers against RegisterHandler): every line reaches the output '
        'exactly once, pre-gate lines precede lines written after Flush was called, the monitor receives the last <= N lines '
        'oldest first and then every later line exactly once (linearisation over call intervals) -- except for the two recorded '
        'findings (tags write_during_flush, overlapping_writes), each reachable in the model.  The real GatedWriter and logWriter, '
        'yield-instrumented from the working tree (the racy append split into load/store), are run under every schedule with <= 2 '
        'preemptions up to a budget plus random ones; each step is validated against the spec with the C29 monitor on the observed '
        'output lines and monitor lines.',
        'Trusts TLC, the instrumenter (incl. the load/store split of the racy append, an execution the Go memory model allows), '
        'the scheduler.  Reading: "written before the gate opened" = Write returned before Flush was invoked; "later" = Write '
        'invoked after Flush was invoked.  Log lines are non-empty.  Two known findings (overtaking during replay; lost line).',
        _TECH, '5 C29',
    ),
    'C34': (
        'model_checking',
        'TLC checks spec/Lifecycle.tla exhaustively (2-5 threads with 1-5 calls of Join / Leave / Shutdown / State, every '
        'interleaving at statement / lock-scope granularity): State() only moves forward, a repeated Shutdown returns nil, a Leave '
        'after a completed Leave returns nil, a Join invoked after a state change was visible is refused.  A real quiet serf node '
        '(in-process transport, optionally with a joined peer) with yield-instrumented Serf.Leave/Shutdown/Join/State is run under '
        'every schedule with <= 1 preemption up to a budget, a sample with <= 2, plus random ones; State() is sampled after every '
        'step and every step validated against the spec with the C34 monitor on samples and call results.',
        'Trusts TLC, the instrumenter, the scheduler.  Readings: "a leave or shutdown had begun" = its state change was observable '
        'before Join was invoked; "leave after a completed leave" = with no Shutdown invoked before it returned (after Shutdown, '
        'Leave returns an error).  The memberlist panic "leave after shutdown" (Leave racing Shutdown) is survived and counted, '
        'not part of C34.',
        _TECH, '5 C34',
    ),
}
# findings of this family as proposed for known_findings.json (the lead integrates them); used only to list new kinds first
PROPOSED = [
    ("C29", {"C29_pregate_order"}, {"write_during_flush"}),
    ("C29", {"C29_out_missing"}, {"overlapping_writes"}),
    ("C28", {"C28_panic", "C28_send_after_close"}, {"record_in_flight_at_close"}),
]
import json
import os
import random

import vlib


def instrument_x(ctx, spec):
    """Like vlib.instrument but with the family's instrumenter variant (cmd/concinstr, adds -rmw)."""
    tool = os.path.join(ctx.scratch, "bin-concinstr")
    if not os.path.exists(tool):
        rc, o = vlib.run(["go", "build", "-o", tool, "./cmd/concinstr"], cwd=vlib.HARNESS, env=vlib.goenv(), timeout=600)
        if rc != 0:
            raise vlib.Inconclusive("instrumenter build failed:\n" + o[-3000:])
    outdir = ctx.sub("instrumented")
    res = {}
    for i, s in enumerate(spec):
        src = os.path.join(vlib.REPO, s["file"])
        dst = os.path.join(outdir, "%d_%s" % (i, os.path.basename(s["file"])))
        args = [tool, "-in", src, "-out", dst, "-funcs", ",".join(s.get("funcs", ["*"]))]
        if s.get("locks", True):
            args.append("-locks")
        if s.get("rmw"):
            args.append("-rmw")
        if s.get("require"):
            args += ["-require", ",".join(s["require"])]
        rc, o = vlib.run(args, timeout=60)
        if rc != 0:
            raise vlib.Inconclusive("instrumenter failed on %s:\n%s" % (s["file"], o[-3000:]))
        res[s["file"]] = dst
    return res


RPC_FUNCS = ["RPCClient.listen", "RPCClient.respondSeq", "RPCClient.deregisterHandler", "RPCClient.deregisterAll",
             "RPCClient.handleSeq", "RPCClient.Close", "RPCClient.Stop", "RPCClient.genericRPC",
             "seqCallback.Handle", "seqCallback.Cleanup",
             "monitorHandler.Handle", "monitorHandler.Cleanup", "streamHandler.Handle", "streamHandler.Cleanup",
             "queryHandler.Handle", "queryHandler.Cleanup"]
LC_FUNCS = ["Serf.Leave", "Serf.Shutdown", "Serf.Join", "Serf.State"]


def build(ctx, prop, rmw=True):
    if prop == "C29":
        inst = instrument_x(ctx, [
            {"file": "cmd/serf/command/agent/gated_writer.go", "funcs": ["*"], "locks": True, "rmw": rmw,
             "require": ["GatedWriter.Flush", "GatedWriter.Write"]},
            {"file": "cmd/serf/command/agent/log_writer.go", "funcs": ["*"], "locks": True,
             "require": ["logWriter.RegisterHandler", "logWriter.Write"]}])
        ov = vlib.overlay_for(ctx, hook_pkgs=[("cmd/serf/command/agent", "agent_yield")], replaced=inst)
        return vlib.go_build(ctx, "conc", overlay=ov, tags="verif,c29", name="bin-conc-c29" + ("" if rmw else "-plain"))
    if prop == "C28":
        inst = instrument_x(ctx, [{"file": "client/rpc_client.go", "funcs": RPC_FUNCS, "locks": True,
                                   "require": ["RPCClient.listen", "RPCClient.respondSeq", "RPCClient.deregisterHandler",
                                               "RPCClient.deregisterAll", "RPCClient.Close", "RPCClient.Stop"]}])
        ov = vlib.overlay_for(ctx, hook_pkgs=[("client", "client_yield")], replaced=inst)
        return vlib.go_build(ctx, "conc", overlay=ov, tags="verif,c28", name="bin-conc-c28")
    if prop == "C34":
        inst = instrument_x(ctx, [{"file": "serf/serf.go", "funcs": LC_FUNCS, "locks": True, "require": LC_FUNCS}])
        ov = vlib.overlay_for(ctx, hook_pkgs=[("serf", "serf_yield"), ("serf", "serf_lifecycle")], replaced=inst)
        return vlib.go_build(ctx, "conc", overlay=ov, tags="verif,c34", name="bin-conc-c34")
    raise vlib.Inconclusive("unknown property " + prop)


# ----------------------------------------------------------------------------- shared pipeline

class _SubCtx:
    """A private scratch area of a Ctx, so that several vlib.validate calls can run in parallel threads."""

    def __init__(self, ctx, name):
        self.parent = ctx
        self.scratch = ctx.sub(name)
        self.ntlc = 0
        self.prop, self.tier, self.seed = ctx.prop, ctx.tier, ctx.seed

    def sub(self, name):
        p = os.path.join(self.scratch, name)
        os.makedirs(p, exist_ok=True)
        return p

    def log(self, *a):
        self.parent.log(*a)


class Report:
    def __init__(self):
        self.lines = 0
        self.traces = 0
        self.diverged = []
        self.monitors = []


def validate_one(ctx, module, cfg, trace_path, timeout=1800):
    """vlib.validate with a parser that tolerates TLC wrapping long printed tuples over several lines."""
    import re
    lines = vlib.read_ndjson(trace_path)
    ids, cur = [], None
    for ln in lines:
        if ln["act"]["a"] == "reset":
            cur = ln["act"]["id"]
        ids.append(cur)
    r = vlib.tlc(ctx, module, cfg, workers=1, timeout=timeout, files={"trace.ndjson": "@" + trace_path})
    if r.violated:
        raise vlib.Inconclusive("trace spec %s reported %s (machinery error):\n%s" % (module, r.violated, r.out[-3000:]))
    text = re.sub(r"\n[ \t]+", " ", r.out)              # continuation lines of a wrapped value are indented
    text = re.sub(r"^<<\s+\"", "<<\"", text, flags=re.M)
    text = re.sub(r"\s+>>[ \t]*$", ">>", text, flags=re.M)
    rep = Report()
    rep.lines, rep.traces = len(lines), len(set(ids))
    seen, done = set(), False
    for body in vlib.printed(text, "DIVERGE"):
        l = int(vlib.split_top(body)[0])
        if ("d", l) not in seen:
            seen.add(("d", l))
            rep.diverged.append((ids[l - 1], l))
    for body in vlib.printed(text, "MONITOR"):
        parts = vlib.split_top(body)
        l = int(parts[0])
        if ("m", l, parts[1]) in seen:
            continue
        seen.add(("m", l, parts[1]))
        rep.monitors.append((ids[l - 1], l, re.findall(r'"([^"]*)"', parts[1]),
                             re.findall(r'"([^"]*)"', parts[2]) if len(parts) > 2 else []))
    for body in vlib.printed(text, "DONE"):
        if int(vlib.split_top(body)[0]) == len(lines) + 1:
            done = True
    if not done:
        raise vlib.Inconclusive("trace spec %s did not consume the whole trace (%d lines):\n%s" % (module, len(lines), r.out[-3000:]))
    ctx.log("validated %d lines / %d traces: %d diverged, %d monitor reports" % (rep.lines, rep.traces, len(rep.diverged), len(rep.monitors)))
    return rep


def validate_parallel(ctx, module, cfg, trace_path, chunks=4, timeout=1800):
    """Splits the trace file at reset lines into `chunks` files and validates them concurrently."""
    import concurrent.futures
    with open(trace_path) as f:
        lines = f.readlines()
    starts = [i for i, ln in enumerate(lines) if ln.startswith('{"act":{"a":"reset"')]
    if not starts:
        raise vlib.Inconclusive("empty trace file")
    chunks = max(1, min(chunks, len(starts)))
    per = (len(lines) + chunks - 1) // chunks
    cuts = [0]
    for s in starts:
        if s - cuts[-1] >= per and len(cuts) < chunks:
            cuts.append(s)
    cuts.append(len(lines))
    ctx.nval = getattr(ctx, "nval", 0) + 1
    jobs = []
    for k in range(len(cuts) - 1):
        p = os.path.join(ctx.scratch, "val%d_%d.ndjson" % (ctx.nval, k))
        with open(p, "w") as f:
            f.writelines(lines[cuts[k]:cuts[k + 1]])
        jobs.append((_SubCtx(ctx, "val%d_%d" % (ctx.nval, k)), p))
    rep = Report()
    with concurrent.futures.ThreadPoolExecutor(max_workers=len(jobs)) as ex:
        futs = [ex.submit(validate_one, sc, module, cfg, p, timeout) for sc, p in jobs]
        for fu in futs:
            r = fu.result()
            rep.lines += r.lines
            rep.traces += r.traces
            rep.diverged += r.diverged
            rep.monitors += r.monitors
    return rep


def traces_by_id(trace_path, wanted):
    """{trace id: (scenario id, reset act, [thread ids of granted steps])} for the wanted trace ids."""
    res, cur = {}, None
    for ln in vlib.read_ndjson(trace_path):
        a = ln["act"]
        if a["a"] == "reset":
            cur = a["id"] if a["id"] in wanted else None
            if cur is not None:
                res[cur] = (a["sid"], a, [])
        elif cur is not None and a["a"] == "step" and not a.get("w"):
            res[cur][2].append(a["t"])
    return res


def run_conc_driver(ctx, binary, prop, scen_path, trace_path, args):
    rc, out = vlib.run_driver(ctx, binary, ["-prop", prop, "-in", scen_path, "-out", trace_path] + args, timeout=2700)
    if rc != 0:
        raise vlib.Inconclusive("conc driver failed rc=%d:\n%s" % (rc, out[-3000:]))
    return json.loads(out.strip().splitlines()[-1])


def explore_and_validate(ctx, prop, binary, scens, module, cfg, drv_args, chunks=4):
    """Runs the scenarios, validates the traces, confirms every kind of monitor report by replaying the
    schedule from scratch.  Returns (summary, report, confirmed violations)."""
    sp = os.path.join(ctx.scratch, "scen.ndjson")
    with open(sp, "w") as f:
        for i, s in enumerate(scens):
            f.write(json.dumps({"id": i, "scen": s}) + "\n")
    tp = os.path.join(ctx.scratch, "trace.ndjson")
    summary = run_conc_driver(ctx, binary, prop, sp, tp, drv_args)
    ctx.log("driver:", summary)
    rep = validate_parallel(ctx, module, cfg, tp, chunks=chunks)
    viol = confirm(ctx, prop, binary, module, cfg, tp, rep, scens)
    return summary, rep, viol


def confirm(ctx, prop, binary, module, cfg, tp, rep, scens, per_kind=2):
    per_key, todo = {}, []
    for (tid, line, clauses, tags) in rep.monitors:
        key = ",".join(sorted(clauses)) + "|" + ",".join(sorted(tags))
        if per_key.get(key, 0) >= per_kind:
            continue
        per_key[key] = per_key.get(key, 0) + 1
        todo.append((tid, clauses, tags))
    if not todo:
        return []
    info = traces_by_id(tp, {t for t, _, _ in todo})
    rp = os.path.join(ctx.scratch, "replay.ndjson")
    with open(rp, "w") as f:
        for i, (tid, _, _) in enumerate(todo):
            sid, _, ids = info[tid]
            f.write(json.dumps({"id": i, "scen": scens[sid], "ids": ids}) + "\n")
    rt = os.path.join(ctx.scratch, "retrace.ndjson")
    run_conc_driver(ctx, binary, prop, rp, rt, ["-replay"])
    rep2 = validate_parallel(ctx, module, cfg, rt, chunks=1)
    again = {}
    for (tid2, _, clauses2, _) in rep2.monitors:
        again.setdefault(tid2, set()).update(clauses2)
    viol = []
    for i, (tid, clauses, tags) in enumerate(todo):
        sid, _, ids = info[tid]
        if set(clauses) & again.get(i, set()):
            viol.append({"clauses": sorted(clauses), "tags": sorted(tags), "schedule": ids, "scen": scens[sid]})
        else:
            ctx.log("report %s of scenario %s not reproduced by the replay; ignored" % (sorted(clauses), json.dumps(scens[sid])))
    return viol


def proposed_last(prop, viol):
    """Violations that are not one of the family's recorded findings first (they are what a reader must see)."""
    def is_prop(v):
        return any(p == prop and set(v["clauses"]) <= c and t <= set(v["tags"]) for p, c, t in PROPOSED)
    return [v for v in viol if not is_prop(v)] + [v for v in viol if is_prop(v)]


def replay_only(ctx, prop, binary, module, cfg, replay):
    v = json.load(open(replay))
    rp = os.path.join(ctx.scratch, "replay.ndjson")
    with open(rp, "w") as f:
        f.write(json.dumps({"id": 0, "scen": v["scen"], "ids": v["schedule"]}) + "\n")
    rt = os.path.join(ctx.scratch, "retrace.ndjson")
    summary = run_conc_driver(ctx, binary, prop, rp, rt, ["-replay"])
    rep = validate_parallel(ctx, module, cfg, rt, chunks=1)
    viol = [{"clauses": sorted(c), "tags": sorted(t), "schedule": v["schedule"], "scen": v["scen"]} for (_, _, c, t) in rep.monitors]
    return summary, rep, viol


# ----------------------------------------------------------------------------- C29

def gw(v):
    return {"op": "gw", "v": v}


def rw(v):
    return {"op": "rw", "v": v}


FL = {"op": "fl", "v": 0}
REG = {"op": "reg", "v": 0}
TRACE_CFG = "SPECIFICATION TraceSpec\nINVARIANT Done\nCONSTANT Progs = {}\n"


def c29_scenarios(rng, thorough):
    must = [
        {"prog": [[gw(1), gw(2)], [gw(3)], [FL]], "n": 1},                 # write during flush, overlapping writes
        {"prog": [[gw(1), gw(2), gw(3)], [FL]], "n": 1},                   # one writer: no overlap possible
        {"prog": [[gw(1)], [FL, gw(2)]], "n": 1},                           # a write after the flush by the flusher itself
        {"prog": [[gw(1), gw(2)], [gw(3), gw(4)], [FL]], "n": 1},
        {"prog": [[gw(1)], [gw(2)], [gw(3)], [FL]], "n": 1},
        {"prog": [[rw(1), rw(2)], [rw(3), rw(4)], [REG]], "n": 2},
        {"prog": [[rw(1), rw(2), rw(3), rw(4)], [REG]], "n": 3},          # wrap-around with the monitor attached in between
        {"prog": [[rw(1), rw(2), rw(3)], [REG, rw(4)]], "n": 1},
        {"prog": [[rw(1)], [rw(2)], [rw(3)], [REG]], "n": 2},
        {"prog": [[rw(1), rw(2), rw(3)], [rw(4)], [REG]], "n": 3},
    ]
    extra = []
    for _ in range(24 if thorough else 4):
        # random shapes: 1-3 writers with 1-3 lines each (<= 5 lines), Flush / RegisterHandler at a random position
        kind = rng.choice(["gate", "ring"])
        nw = rng.randint(1, 3)
        lines, prog = 0, []
        for _w in range(nw):
            k = rng.randint(1, 3 if nw < 3 else 2)
            k = min(k, 5 - lines - (nw - len(prog) - 1))
            ops = []
            for _j in range(max(1, k)):
                lines += 1
                ops.append(gw(lines) if kind == "gate" else rw(lines))
            prog.append(ops)
        special = FL if kind == "gate" else REG
        if rng.random() < 0.5:
            prog.append([special])
        else:
            w = rng.randrange(len(prog))
            pos = rng.randint(0, len(prog[w]))
            prog[w] = prog[w][:pos] + [special] + prog[w][pos:]
        extra.append({"prog": prog, "n": rng.randint(1, 3)})
    return must + extra


def tlc_parallel(ctx, jobs):
    """jobs: [(name, module, cfg, timeout)] run concurrently, each in a private scratch area; returns {name: TLCResult}."""
    import concurrent.futures
    ctx.npar = getattr(ctx, "npar", 0) + 1
    w = max(2, vlib.NCPU // max(1, len(jobs)))
    with concurrent.futures.ThreadPoolExecutor(max_workers=len(jobs)) as ex:
        futs = {name: ex.submit(vlib.tlc, _SubCtx(ctx, "mc%d_%s" % (ctx.npar, name)), module, cfg, "check", w, timeout)
                for (name, module, cfg, timeout) in jobs}
        return {name: fu.result() for name, fu in futs.items()}


def c29_model(ctx, thorough):
    cfg = "CONSTANT Progs <- %s\nINIT Init\nNEXT Next\nINVARIANT %s\nINVARIANT NoDeadlock\n"
    r = tlc_parallel(ctx, [
        ("main", "MC_LogPipe", cfg % ("MCAll" if thorough else "MCQuick", "C29"), 1500),
        # the fixed-code variant of the gate (reports/conc-fix-1.diff: one mutex) must satisfy C29 with no waiver
        ("fixed", "MC_LogPipe", cfg % ("MCFixed" if thorough else "MCFixedQuick", "C29Strict"), 900),
        # every recorded finding must be reachable in the model
        ("order", "MC_LogPipe", cfg % ("MCGateSeq", "NoOrderFinding"), 600),
        ("lost", "MC_LogPipe", cfg % ("MCGateOverlap", "NoLostFinding"), 600)])
    mc = r["main"]
    if mc.violated:
        raise vlib.Inconclusive("model violates %s beyond the recorded findings -- spec error, no verdict" % mc.violated)
    if r["fixed"].violated:
        raise vlib.Inconclusive("the fixed-code variant of the model violates %s -- spec error, no verdict" % r["fixed"].violated)
    for k in ("order", "lost"):
        if not r[k].violated:
            raise vlib.Inconclusive("recorded finding (%s) is not reachable in the model" % k)
    mc.generated += r["fixed"].generated
    mc.distinct += r["fixed"].distinct
    return mc


def run_c29(ctx, replay):
    thorough = ctx.thorough()
    binary = build(ctx, "C29")
    mc = None
    if replay:
        summary, rep, viol = replay_only(ctx, "C29", binary, "Trace_LogPipe", TRACE_CFG, replay)
        scens = []
    else:
        mc = c29_model(ctx, thorough)
        scens = c29_scenarios(random.Random(ctx.seed), thorough)
        args = ["-procs", "1"] + (["-maxpre", "3", "-budget1", "200", "-budget", "80", "-random", "20"] if thorough else
                                  ["-maxpre", "2", "-budget1", "50", "-budget", "10", "-random", "8"])
        summary, rep, viol = explore_and_validate(ctx, "C29", binary, scens, "Trace_LogPipe", TRACE_CFG, args,
                                                  chunks=8 if thorough else 4)
    new, known = vlib.classify(ctx.prop, proposed_last(ctx.prop, viol))
    cov = {
        "states": mc.distinct if mc else 1, "transitions": mc.generated if mc else 1, "exhaustive": bool(mc),
        "model_constants": ("gate: 1 writer x 3 lines, 2 writers x 2 lines, 3 writers x 1 line, each with a Flush thread; ring sizes "
                            "1..3: 2 writers x 2 lines, 1 writer x 4 lines, 3 writers x 1 line, each with a RegisterHandler thread"
                            if thorough else
                            "gate: 1 writer x 2 lines, 2 writers (2+1 lines), each with a Flush thread; ring sizes 1..3: 2 writers "
                            "(2+1 lines), sizes 2..3: 1 writer x 4 lines, each with a RegisterHandler thread")
                           + "; the same gate programs on the fixed-code variant (one mutex) with no waiver",
        "traces_validated_against_impl": rep.traces, "trace_lines": rep.lines, "divergences": len(rep.diverged),
        "evaluations": summary["schedules"], "distinct_nontrivial": rep.traces,
        "scenarios": summary["scenarios"], "scenarios_with_complete_dfs": summary["dfs_complete"],
        "child_process_crashes": summary["crashes"], "deadlocked_or_hung_schedules": summary["hung"],
        "rule": "programs of 2-4 threads (GatedWriter.Write / Flush, logWriter.Write / RegisterHandler) run on the yield-instrumented "
                "real code under every schedule with <=2 (thorough 3) preemptions up to a budget plus seeded random schedules; the "
                "append under the read lock is split into load/yield/store by the instrumenter; each schedule is one trace, "
                "validated step by step against LogPipe.tla with the C29 monitor on the observed output and monitor lines",
        "samples": scens[:2],
    }
    assume = ["yield points before every statement of gated_writer.go and log_writer.go; Lock/RLock become cooperative TryLock loops",
              "`w.buf = append(w.buf, p2)` is executed as load, yield, store (allowed for a racy statement by the Go memory model)",
              "log lines are non-empty (the agent's loggers always write a timestamp prefix)",
              "one Flush and at most one monitor attachment per program"]
    vlib.finish(ctx, "model_checking", cov, assume, new, known)



# ----------------------------------------------------------------------------- C28

def rec(h, ty):
    return {"h": h, "ty": ty}


def stop(h):
    return {"op": "stop", "h": h, "ty": ""}


CLOSE = {"op": "close", "h": 0, "ty": ""}


def feed(h, ty):
    return {"op": "feed", "h": h, "ty": ty}


RPC_CFG = "SPECIFICATION TraceSpec\nINVARIANT Done\nCONSTANT Scens = {}\n"


def c28_scenarios(rng, thorough):
    must = [
        {"subs": ["stream"], "pre": [rec(1, "rec"), rec(1, "rec")], "prog": [[stop(1)], [CLOSE]]},
        {"subs": ["monitor"], "pre": [rec(1, "rec")], "prog": [[stop(1), feed(1, "rec")], [stop(1)]]},
        {"subs": ["query"], "pre": [rec(1, "ack"), rec(1, "resp"), rec(1, "done")], "prog": [[CLOSE]]},
        {"subs": ["query"], "pre": [rec(1, "ack")], "prog": [[feed(1, "resp"), feed(1, "done")], [CLOSE]]},
        {"subs": ["stream", "query"], "pre": [rec(1, "rec"), rec(2, "resp"), rec(2, "done")], "prog": [[stop(1)], [CLOSE]]},
        {"subs": ["stream"], "pre": [], "prog": [[stop(1)], [feed(1, "rec"), CLOSE]]},
        # nothing in flight when the channels are closed: must hold without any waiver
        {"subs": ["stream"], "pre": [], "prog": [[stop(1), feed(1, "rec")], [stop(1), CLOSE]]},
        {"subs": ["query"], "pre": [], "prog": [[feed(1, "done"), feed(1, "ack")], [CLOSE]]},
        {"subs": ["monitor", "stream"], "pre": [], "prog": [[stop(1), feed(1, "rec"), feed(2, "rec")], [stop(2), feed(2, "rec")]]},
    ]
    if thorough:
        must.append({"subs": ["stream", "monitor"], "pre": [rec(1, "rec"), rec(2, "rec")], "prog": [[stop(1), stop(2)], [CLOSE, CLOSE]]})
    extra = []
    for _ in range(16 if thorough else 3):
        subs = [rng.choice(["stream", "monitor", "query"]) for _ in range(rng.randint(1, 2))]

        def anyrec():
            h = rng.randrange(len(subs)) + 1
            return rec(h, rng.choice(["ack", "resp", "done"]) if subs[h - 1] == "query" else "rec")
        pre = [anyrec() for _ in range(rng.randint(0, 3))]
        prog = []
        for _u in range(rng.randint(1, 2)):
            ops = []
            for _k in range(rng.randint(1, 2)):
                c = rng.random()
                stoppable = [h + 1 for h, k in enumerate(subs) if k != "query"]
                if c < 0.4 and stoppable:
                    ops.append(stop(rng.choice(stoppable)))
                elif c < 0.65:
                    ops.append(CLOSE)
                else:
                    r = anyrec()
                    ops.append(feed(r["h"], r["ty"]))
            prog.append(ops)
        extra.append({"subs": subs, "pre": pre, "prog": prog})
    return must + extra


def c28_model(ctx, thorough):
    cfg = "CONSTANT Scens <- %s\nINIT Init\nNEXT Next\nINVARIANT %s\nINVARIANT NoDeadlock\n"
    r = tlc_parallel(ctx, [
        ("main", "MC_RPCClient", cfg % ("MCAll" if thorough else "MCQuick", "C28"), 1500),
        ("noflight", "MC_RPCClient", cfg % ("MCNoFlight", "C28Strict"), 600),
        # the fixed-code variant (reports/conc-fix-2.diff: a mutex per handler) must satisfy C28 with no waiver
        ("fixed", "MC_RPCClient", cfg % ("MCFixed" if thorough else "MCFixedQuick", "C28Strict"), 1500),
        ("finding", "MC_RPCClient", cfg % ("MCFinding", "C28Strict"), 600)])
    mc = r["main"]
    if mc.violated:
        raise vlib.Inconclusive("model violates %s beyond the recorded finding -- spec error, no verdict" % mc.violated)
    if r["noflight"].violated:
        raise vlib.Inconclusive("model violates C28 with no record in flight (%s) -- spec error, no verdict" % r["noflight"].violated)
    if r["fixed"].violated:
        raise vlib.Inconclusive("the fixed-code variant of the model violates %s -- spec error, no verdict" % r["fixed"].violated)
    if not r["finding"].violated:
        raise vlib.Inconclusive("the recorded finding (send on a channel closed between lookup and send) is not reachable in the model")
    mc.generated += r["noflight"].generated + r["fixed"].generated
    mc.distinct += r["noflight"].distinct + r["fixed"].distinct
    return mc


def run_c28(ctx, replay):
    thorough = ctx.thorough()
    binary = build(ctx, "C28")
    mc = None
    if replay:
        summary, rep, viol = replay_only(ctx, "C28", binary, "Trace_RPCClient", RPC_CFG, replay)
        scens = []
    else:
        mc = c28_model(ctx, thorough)
        scens = c28_scenarios(random.Random(ctx.seed), thorough)
        args = ["-procs", "2"] + (["-maxpre", "2", "-budget1", "150", "-budget", "60", "-random", "15"] if thorough else
                                  ["-maxpre", "1", "-budget1", "60", "-random", "8"])
        summary, rep, viol = explore_and_validate(ctx, "C28", binary, scens, "Trace_RPCClient", RPC_CFG, args,
                                                  chunks=8 if thorough else 4)
    new, known = vlib.classify(ctx.prop, proposed_last(ctx.prop, viol))
    cov = {
        "states": mc.distinct if mc else 1, "transitions": mc.generated if mc else 1, "exhaustive": bool(mc),
        "model_constants": "listener + 1-2 user threads (Stop / Close / feed, <= 2 calls each), 1-2 subscriptions "
                           "(stream, monitor, query), <= 3 records on the wire: %d scenarios, every interleaving; the same on the fixed-code "
                           "variant (a mutex per handler) with no waiver" % (9 if thorough else 7),
        "traces_validated_against_impl": rep.traces, "trace_lines": rep.lines, "divergences": len(rep.diverged),
        "evaluations": summary["schedules"], "distinct_nontrivial": rep.traces,
        "scenarios": summary["scenarios"], "scenarios_with_complete_dfs": summary["dfs_complete"],
        "child_process_crashes": summary["crashes"], "deadlocked_or_hung_schedules": summary["hung"],
        "rule": "the real client.RPCClient (listen / respondSeq / handlers / Stop / Close yield-instrumented) talks to a scripted "
                "loopback msgpack server; its own listen goroutine is adopted by the cooperative scheduler; every schedule with <= 1 "
                "preemption up to a budget (thorough: also <= 2) plus seeded random schedules runs in child processes (a panic kills "
                "the child, the parent records the fatal step); each schedule is one trace validated against RPCClient.tla",
        "samples": scens[:2],
    }
    assume = ["yield points before every statement of the instrumented functions of rpc_client.go; Lock calls become cooperative TryLock loops",
              "subscriptions are initialised before the run (Stream/Monitor/Query returned)",
              "subscriber channels have capacity 64 (no drops); the harness drains them after every step",
              "goroutine states from runtime.Stack decide 'blocked in the runtime'"]
    vlib.finish(ctx, "model_checking", cov, assume, new, known)



# ----------------------------------------------------------------------------- C34

J, LV, SD, ST = {"op": "join"}, {"op": "leave"}, {"op": "shutdown"}, {"op": "state"}
LC_CFG = "SPECIFICATION TraceSpec\nINVARIANT Done\nCONSTANT Progs = {}\n"


def c34_scenarios(rng, thorough):
    must = [
        {"prog": [[LV, LV], [SD, SD], [J, ST]], "peer": False},
        {"prog": [[LV], [LV], [SD], [J]], "peer": False},
        {"prog": [[LV, J], [SD, LV], [ST, ST]], "peer": False},
        {"prog": [[J, LV, SD], [ST, J]], "peer": False},
        {"prog": [[LV, LV, SD, SD, J], [ST, ST, ST]], "peer": False},
        {"prog": [[LV], [SD], [J]], "peer": True},
        {"prog": [[LV, LV], [J, SD], [ST]], "peer": True},
    ]
    if thorough:
        must.append({"prog": [[J], [LV], [LV], [SD], [SD]], "peer": False})
    extra = []
    for _ in range(20 if thorough else 4):
        prog = [[rng.choice([J, LV, LV, SD, SD, ST]) for _k in range(rng.randint(1, 3))] for _t in range(rng.randint(2, 4))]
        extra.append({"prog": prog, "peer": rng.random() < 0.3})
    return must + extra


def c34_model(ctx, thorough):
    cfg = "CONSTANT Progs <- %s\nINIT Init\nNEXT Next\nINVARIANT %s\nINVARIANT NoDeadlock\n"
    mc = vlib.tlc(ctx, "MC_Lifecycle", cfg % ("MCAll" if thorough else "MCQuick", "C34"), timeout=2400)
    if mc.violated:
        raise vlib.Inconclusive("model violates %s -- spec error or a defect the code reading missed; no verdict from the model alone" % mc.violated)
    return mc


def run_c34(ctx, replay):
    thorough = ctx.thorough()
    binary = build(ctx, "C34")
    mc = None
    if replay:
        summary, rep, viol = replay_only(ctx, "C34", binary, "Trace_Lifecycle", LC_CFG, replay)
        scens, tp = [], os.path.join(ctx.scratch, "retrace.ndjson")
    else:
        mc = c34_model(ctx, thorough)
        scens = c34_scenarios(random.Random(ctx.seed), thorough)
        args = ["-procs", "4"] + (["-maxpre", "2", "-budget1", "250", "-budget", "100", "-random", "30"] if thorough else
                                  ["-maxpre", "2", "-budget1", "80", "-budget", "15", "-random", "10"])
        summary, rep, viol = explore_and_validate(ctx, "C34", binary, scens, "Trace_Lifecycle", LC_CFG, args,
                                                  chunks=8 if thorough else 4)
        tp = os.path.join(ctx.scratch, "trace.ndjson")
    ml_panics = 0
    with open(tp) as f:
        for ln in f:
            if '"ret":"panic_ml"' in ln:
                ml_panics += 1
    new, known = vlib.classify(ctx.prop, proposed_last(ctx.prop, viol))
    cov = {
        "states": mc.distinct if mc else 1, "transitions": mc.generated if mc else 1, "exhaustive": bool(mc),
        "model_constants": "programs over join/leave/shutdown/state: {LL | SS | J St}, {L J | S L | St St}, {J L S | St J}, "
                           "{L L S S J | St St St}" + (", {L | L | S | J}, {J | L | L | S | S}" if thorough else "") + ", every interleaving",
        "traces_validated_against_impl": rep.traces, "trace_lines": rep.lines, "divergences": len(rep.diverged),
        "evaluations": summary["schedules"], "distinct_nontrivial": rep.traces,
        "scenarios": summary["scenarios"], "scenarios_with_complete_dfs": summary["dfs_complete"],
        "child_process_crashes": summary["crashes"], "deadlocked_or_hung_schedules": summary["hung"],
        "memberlist_leave_after_shutdown_panics_survived": ml_panics,
        "rule": "2-5 threads calling Join / Leave / Shutdown / State (1-5 calls each) on a real quiet serf node (in-process "
                "transport, optionally with a joined peer) with yield-instrumented Serf.Leave/Shutdown/Join/State under every schedule "
                "with <= 1 preemption up to a budget, a sample with <= 2, plus seeded random schedules; State() is sampled after every "
                "step; each schedule is one trace validated against Lifecycle.tla",
        "samples": scens[:2],
    }
    assume = ["yield points before every statement of Serf.Leave/Shutdown/Join/State; Lock calls become cooperative TryLock loops",
              "BroadcastTimeout 2 ms, LeavePropagateDelay 1 ms; waits inside Leave are 'blocked in the runtime' for the scheduler",
              "the panic 'leave after shutdown' inside memberlist.Leave (Leave racing Shutdown) is recovered by the harness and "
              "reported as a call result; it is outside C34's clauses",
              "'a leave or shutdown had begun' is read as: its state change was observable through State() before Join was invoked"]
    vlib.finish(ctx, "model_checking", cov, assume, new, known)


def run(ctx, replay=None):
    if ctx.prop == "C29":
        return run_c29(ctx, replay)
    if ctx.prop == "C28":
        return run_c28(ctx, replay)
    if ctx.prop == "C34":
        return run_c34(ctx, replay)
    raise vlib.Inconclusive("unknown property " + ctx.prop)
