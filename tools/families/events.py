"""C05, C14 (sequential model spec/SerfEvents.tla), C06 (spec/SerfEventsConc.tla), and the user-event/query
half of C04 through run_c04_events(ctx)."""
PROPS = ["C05", "C06", "C14"]
# id: (level, what the check establishes, trusted base / assumptions, technique, DESIGN.md section)
CLAIMS = {
    'C05': (
        'model_checking',
        'TLC checks the C05 monitors (no <<Lamport time, name, payload>> delivered twice on a node; a user event received '
        'for the first time, not older than the restart / ignore-old-join cut-off and inside the buffer window as of the '
        'observed clock, is delivered in that call) exhaustively on spec/SerfEvents.tla for every buffer size 1..4 over '
        'gossip, push/pull merges (with and without join-ignore), local UserEvent calls and restarts, with times at both '
        'ends of the 64-bit range (slot collisions, window edges, the wrap at 2^64-1), and on every step of TLC-simulated '
        'histories executed on a real quiet Serf node (real wire format through NotifyMsg / MergeRemoteState, '
        'Config.EventBuffer = 1..4), each step validated by TLC against the specification.',
        'Trusts TLC, the overlay accessor (event/query buffers, minimum times, eventJoinIgnore setter), the wire encoding '
        'mirror and the gap embedding of model times 0..23 into uint64 (23 |-> 2^64-1; its order, +1 and ring-slot laws are discharged for every MAX by Apalache on spec/EmbedLaw.tla in the thorough tier). The double delivery through the '
        'Lamport clock wrap at 2^64-1 is a recorded consequence of C19-wrap-at-max (tag witnessed_max).',
        'TLA+ spec (SerfEvents) + TLC exhaustive check of the monitors per buffer size; TLC-simulated and '
        'counterexample-derived input sequences replayed on a real quiet Serf node; TLC trace validation of every step '
        'with property monitors on observed deliveries',
        '5 C05',
    ),
    'C06': (
        'model_checking',
        'TLC checks the C06 monitors (no two locally issued user events / queries carry the same Lamport time; each carries '
        'a time strictly greater than every event / query delivered to the application or completely handled before the call began) on '
        'spec/SerfEventsConc.tla (time taken by one atomic Increment()-1, then handled) for 2 (thorough 3) concurrent '
        'callers plus an incoming-message thread: nothing is violated unless a message with time 2^64-1 is processed; the '
        'real Serf.UserEvent / Serf.Query / handlers, yield-instrumented from the working tree, are run under every '
        'schedule with <=1 (thorough 2, budgeted) preemptions plus seeded random schedules by a cooperative scheduler; every '
        'scheduling segment is validated by TLC against the specification (subset construction over the unlogged locals) '
        'with the monitors evaluated on the Lamport times carried by the queued broadcasts.',
        'Trusts TLC, the yield instrumenter (a yield before every statement of UserEvent, Query, registerQueryResponse, '
        'handleUserEvent, handleQuery and of every function of lamport.go), the cooperative '
        'scheduler (yields also inside lamport.go: Witness load / compare / CAS, Increment, Time; preemptions are enumerated around the clock accesses, <=2 for small programs). Concurrent callers sharing a time was a genuine defect (fixed in /repo 82cb47c; mutants/m_c06_unfix.diff '
        'restores it and is caught); the repetition of times after the wrap at 2^64-1 is a recorded consequence of '
        'C19-wrap-at-max (tag witnessed_max).',
        'TLA+ spec + TLC exhaustive check; systematic schedule enumeration of the instrumented real code; TLC trace '
        'validation by subset construction with property monitors',
        '5 C06',
    ),
    'C14': (
        'model_checking',
        'TLC checks the C14 monitor (after a restart from the snapshot no user event / query with a Lamport time at or '
        'below the newest one the snapshot file held is delivered, whether it arrives by gossip, push/pull or join-time '
        'merge with or without join-ignore, or is issued locally) exhaustively on spec/SerfEvents.tla with restart '
        'actions (graceful Shutdown and crash = the file as it was on disk), and on every step of simulated histories run '
        'on a real node with Config.SnapshotPath (restart = Shutdown + serf.Create on the same path; the recorded times are '
        'read from the snapshot file before the new instance starts).',
        'Trusts TLC, the overlay accessor, the wire encoding mirror, the gap embedding of times, and that a crash leaves '
        'the snapshot file as it was on disk at that moment (modelled by copying the file before Shutdown). A recorded time '
        'of 2^64-1 makes the restored minimum time wrap to 0: recorded consequence of C19-wrap-at-max (tag witnessed_max).',
        'TLA+ spec (SerfEvents with Restart) + TLC exhaustive check; simulated histories with restarts replayed on a real '
        'node with a real snapshot file; TLC trace validation with property monitors on observed deliveries',
        '5 C14',
    ),
}
import json
import os
import random
import re
import shutil
import sys
import time

sys.path.insert(0, os.path.dirname(os.path.dirname(os.path.abspath(__file__))))
import vlib  # noqa: E402

MAX = 23
LOW = [0, 1, 2, 3, 4, 5]
HIGH = [19, 20, 21, 22, 23]
NC = 3
LOCALMAX = 3
PREFIX = {"C05": ("C05_",), "C14": ("C14_",), "C04": ("C04_",)}


def tla_set(xs):
    return "{" + ", ".join(json.dumps(x) if isinstance(x, str) else str(x) for x in xs) + "}"


def consts(bs, low, high, nc, qids, kinds, ppslots, ppk, localmax, steps, snaps=(0, 1), bqs=None):
    return ("CONSTANT MAX = %d\nCONSTANT Snaps = %s\nCONSTANT Bs = %s\nCONSTANT BQs = %s\nCONSTANT LowT = %s\nCONSTANT HighT = %s\nCONSTANT NC = %d\n"
            "CONSTANT QIds = %s\nCONSTANT Kinds = %s\nCONSTANT PPSlots = %d\nCONSTANT PPK = %d\n"
            "CONSTANT LocalMax = %d\nCONSTANT MaxSteps = %d\n" % (
                MAX, tla_set(snaps), tla_set(bs), tla_set(bqs if bqs is not None else [1]), tla_set(low), tla_set(high), nc, tla_set(qids), tla_set(kinds), ppslots, ppk, localmax, steps))


BS = [1, 2, 3, 4]
ALLK = ["ev", "qry", "merge", "join", "uev", "lq", "restart"]


def trace_cfg():
    return "SPECIFICATION TraceSpec\nINVARIANT Done\n" + consts([1], LOW, HIGH, NC, [1, 2, 3], ALLK, 2, 2, LOCALMAX, 1000000, snaps=[1])


def build_seq(ctx):
    ov = vlib.overlay_for(ctx, hook_pkgs=[("serf", "serf_state"), ("serf", "serf_events"), ("serf", "serf_yield")])
    return vlib.go_build(ctx, "events", overlay=ov)


def counterexample(r):
    """The `last` records of the error trace TLC printed (one per state after the initial one)."""
    out = []
    for m in re.finditer(r"^/\\ last = (.*(?:\n(?!/\\|State |\s*$).*)*)", r.out, re.M):
        v = vlib.parse_tla(m.group(1))
        if v.get("a") != "init":
            out.append(v)
    return out


# exhaustive configurations: name, kinds, (low quick, low thorough), high, nc, qids, ppslots, ppk, localmax,
# (steps quick, steps thorough), snaps
def mc_configs(prop):
    ev = [("gossip+local+restart", ["ev", "uev", "restart"], ([0, 1, 2, 3, 4], [0, 1, 2, 3, 4]), [22, 23], 2, [1], 1, 1, 2, (4, 5), [0, 1]),
          ("gossip+merge", ["ev", "merge"], ([1, 2], [0, 1, 2]), [23], 1, [1], 1, 1, 0, (3, 3), [1]),
          ("gossip+merge, 2 contents", ["ev", "merge"], ([1, 2], [0, 1, 2]), [23], 2, [1], 1, 1, 0, (2, 3), [0, 1])]
    qr = [("queries", ["qry", "lq", "restart"], ([1, 2], [0, 1, 2]), [23], 1, [1, 2], 1, 1, 2, (3, 4), [0, 1])]
    rs = [("restart+merge", ["ev", "merge", "restart"], ([1, 2], [0, 1, 2]), [23], 1, [1], 1, 1, 0, (3, 3), [1])]
    if prop == "C05":
        return ev
    if prop == "C14":
        return [ev[0]] + qr + rs
    return ev + qr   # C04


def model_check(ctx, prop):
    """Exhaustive: the model passes its own monitors (recorded finding carved out by its tag) for every buffer size,
    and the finding is reachable (strict invariant violated); the counterexample becomes a directed schedule."""
    tot_d = tot_g = 0
    desc = []
    th = 1 if ctx.thorough() else 0
    for (name, kinds, lows, high, nc, qids, pps, ppk, lmax, stepss, snaps) in mc_configs(prop):
        # query ring sizes matter only where queries are handled; there both rings vary independently
        hasq = "qry" in kinds or "lq" in kinds
        c = consts([1, 3] if hasq else BS, lows[th], high, nc, qids, kinds, pps, ppk, lmax, stepss[th], snaps=snaps,
                   bqs=BS if hasq else [1])
        r = vlib.tlc(ctx, "SerfEvents", c + "INIT Init\nNEXT Next\nINVARIANT Props\n", timeout=3000)
        if r.violated:
            raise vlib.Inconclusive("the model violates its own monitors beyond the recorded finding (%s):\n%s"
                                    % (name, r.out[-3000:]))
        tot_d += r.distinct
        tot_g += r.generated
        desc.append("%s: kinds %s, times %s+%s, %d contents, <=%d steps" % (name, kinds, lows[th], high, nc, stepss[th]))
    # reachability of the recorded finding (otherwise the waiver would be vacuous)
    kinds = ["ev", "restart"] if prop == "C14" else ["ev"]
    c = consts(BS, [1, 2], [23], 1, [1], kinds, 1, 1, 0, 4, snaps=[1])
    r = vlib.tlc(ctx, "SerfEvents", c + "INIT Init\nNEXT Next\nINVARIANT %s\n" % STRICT[prop], timeout=3000)
    if not r.violated:
        raise vlib.Inconclusive("the recorded finding (clock wrap at MAX) is not reachable in the model")
    return tot_d, tot_g, [counterexample(r)], desc


STRICT = {"C05": "StrictC05", "C14": "StrictC14", "C04": "StrictC04"}


def simulate(ctx, num, depth):
    c = consts(BS, LOW, HIGH, NC, [1, 2, 3], ALLK, 2, 2, LOCALMAX, depth)
    _, scheds = vlib.simulate_schedules(ctx, "Gen_SerfEvents", c + "INIT GenInit\nNEXT GenNext\n", num, 2 * depth + 2,
                                        timeout=3000)
    return scheds


def bb(b):
    """buffer sizes of a schedule: an int (both rings) or a pair (EventBuffer, QueryBuffer)."""
    return (b[0], b[1]) if isinstance(b, (list, tuple)) else (b, b)


def execute(ctx, binary, scheds, tag):
    """scheds: list of (b, snap, steps); snap = 0 no snapshot, 1 snapshot, n >= 40: snapshot file pre-filled with comment
    lines up to n bytes below the compaction limit (the schedule's recorded clocks then cross it)."""
    sp = os.path.join(ctx.scratch, "sched-%s.ndjson" % tag)
    tp = os.path.join(ctx.scratch, "trace-%s.ndjson" % tag)
    vlib.write_schedules(sp, [[{"a": "cfg", "b": bb(b)[0], "bq": bb(b)[1], "snap": min(sn, 1), "fill": sn if sn > 1 else 0}] + s
                               for (b, sn, s) in scheds])
    rc, out = vlib.run_driver(ctx, binary, ["-mode", "seq", "-in", sp, "-out", tp, "-nc", str(NC),
                                            "-max", str(MAX), "-dir", ctx.sub("snap")], timeout=1800)
    if rc != 0:
        raise vlib.Inconclusive("events driver failed rc=%d:\n%s" % (rc, out[-3000:]))
    return tp


def judge(ctx, binary, scheds, pre, tag):
    """Executes the schedules on the real node, validates the traces, confirms every kind of monitor report (at most two
    per kind) by a second execution from scratch.  Returns (confirmed violations, trace report)."""
    tp = execute(ctx, binary, scheds, tag)
    rep = vlib.validate(ctx, "Trace_SerfEvents", trace_cfg(), tp, timeout=3000)
    viol, seen, cand = [], {}, []
    for (tid, line, clauses, tags) in rep.monitors:
        mine = sorted(c for c in clauses if c.startswith(pre))
        if not mine:
            continue
        key = ",".join(mine) + "|" + ",".join(sorted(tags))
        if seen.get(key, 0) >= 2:
            continue
        seen[key] = seen.get(key, 0) + 1
        cand.append((tid, mine))
    if cand:
        t2 = execute(ctx, binary, [scheds[tid] for (tid, _) in cand], tag + "-confirm")
        rep2 = vlib.validate(ctx, "Trace_SerfEvents", trace_cfg(), t2)
        for n, (tid, mine) in enumerate(cand):
            again = [m for m in rep2.monitors if m[0] == n and set(m[2]) & set(mine)]
            if again:
                viol.append({"clauses": mine, "tags": sorted(again[0][3]), "schedule": scheds[tid][2], "b": scheds[tid][0],
                             "snap": scheds[tid][1]})
            else:
                ctx.log("report %s on trace %d (%s) not reproduced; ignored" % (mine, tid, tag))
    return viol, rep


def directed(mc_ce):
    """Directed schedules: TLC's counterexample for the recorded finding, and histories that random simulation rarely
    continues far enough: restart from a snapshot that recorded T, ignore-old join to a peer whose event clock is <= T,
    then events / queries at times <= T (gossip and state sync)."""
    ev = lambda lt, k: {"a": "ev", "lt": lt, "k": k}
    qry = lambda lt, i: {"a": "qry", "lt": lt, "id": i, "nb": 0, "flt": 0}
    mg = lambda elt, evs, j, g, qlt=0: {"a": "merge", "elt": elt, "qlt": qlt, "evs": evs, "join": j, "ign": g}
    rs = lambda c: {"a": "restart", "crash": c}
    hand = [
        [ev(3, 1), rs(0), mg(2, [], 1, 1), ev(2, 2), ev(3, 1), mg(3, [{"lt": 3, "ks": [1, 2]}], 0, 0)],
        [ev(4, 1), qry(4, 1), rs(0), mg(4, [{"lt": 4, "ks": [1]}], 1, 1, 4), ev(4, 1), qry(4, 1), ev(3, 2), qry(3, 2)],
        [ev(20, 1), rs(0), mg(19, [{"lt": 19, "ks": [2]}], 1, 1), ev(20, 1), ev(19, 2), rs(1), mg(1, [], 1, 1), ev(20, 1)],
        [{"a": "uev", "k": 1}, {"a": "lq"}, rs(0), mg(1, [], 1, 1, 1), ev(1, 1), qry(1, 1), mg(0, [{"lt": 1, "ks": [1]}], 1, 1)],
    ]
    jn = lambda elt, evs, g, qlt=1: {"a": "join", "elt": elt, "qlt": qlt, "evs": evs, "join": 1, "ign": g}
    # after a completed Serf.Join(ignoreOld) the node is joined by others: inbound merges with isJoin (flag not touched by the
    # harness) must not move the cut-off, fresh events below the inbound joiner's event clock are delivered
    hand += [
        [jn(1, [], 1), mg(5, [], 1, 0), ev(4, 1), ev(3, 2), mg(21, [{"lt": 20, "ks": [1]}], 1, 0), ev(20, 2)],
        [ev(2, 1), jn(3, [{"lt": 2, "ks": [1, 2]}], 1), ev(2, 2), jn(4, [{"lt": 3, "ks": [1]}], 0), mg(5, [{"lt": 4, "ks": [2]}], 1, 0), ev(4, 1)],
        [ev(3, 1), rs(0), jn(2, [{"lt": 1, "ks": [1]}], 1), ev(3, 1), ev(2, 2), mg(5, [], 1, 0), ev(4, 2)],
    ]
    out = [(b, 1, s) for s in ([x for x in mc_ce if x] + hand) for b in BS]
    # unequal rings: times that differ by the size of the smaller ring, alternating duplicates (each window against its own ring)
    for (be, bq) in ((1, 4), (2, 4), (4, 1), (3, 2), (2, 3)):
        out.append(((be, bq), 1, [ev(1, 1), ev(1 + be, 1), ev(1, 1), ev(1 + be, 1), ev(1, 1), qry(1, 1), qry(1 + bq, 1), qry(1, 1), qry(1 + bq, 1)]))
        out.append(((be, bq), 0, [ev(2, 1), ev(2 + bq, 2), ev(2, 1), qry(2, 1), qry(2 + be, 2), qry(2, 1), mg(5, [{"lt": 5 - be, "ks": [1]}], 0, 0)]))
    # snapshot compaction: the file is pre-filled to just below the limit, j increasing times are recorded (one of the
    # lines crosses the limit and triggers the compaction), graceful restart, the newest one arrives again
    ts = [1, 2, 3, 4, 5, 19, 20, 21, 22]
    for fill in (100, 160):
        for j in range(1, len(ts) + 1):
            out.append((4, fill, [qry(t, 1) for t in ts[:j]] + [rs(0), qry(ts[j - 1], 1)] + [qry(t, 1) for t in ts[:j - 1][-1:]]))
            out.append((2, fill, [ev(t, 1) for t in ts[:j]] + [rs(0), ev(ts[j - 1], 1)] + [ev(t, 1) for t in ts[:j - 1][-1:]]))
    return out


def alphabet(snap, nlocal, reduced=False):
    """Single next inputs for the amplification (times of the whole domain, so the recorded ones too)."""
    ts = [1, 3, 20, 23] if reduced else LOW + HIGH
    out = []
    for lt in ts:
        for k in ([1] if reduced else [1, 2]):
            out.append({"a": "ev", "lt": lt, "k": k})
            out.append({"a": "qry", "lt": lt, "id": k, "nb": 0, "flt": 0})
    flags = [(1, 0), (1, 1)] if reduced else [(0, 0), (1, 0), (1, 1)]
    for (j, g) in flags:
        for elt in ts:
            out.append({"a": "merge", "elt": elt, "qlt": elt, "evs": [], "join": j, "ign": g})
        for lt in ([] if reduced else ts):
            out.append({"a": "merge", "elt": 1, "qlt": 0, "evs": [{"lt": lt, "ks": [1]}], "join": j, "ign": g})
    for g in ([1] if reduced else [0, 1]):
        out.append({"a": "join", "elt": 1, "qlt": 1, "evs": [], "join": 1, "ign": g})
    if snap >= 1:
        out += [{"a": "restart", "crash": 0}] + ([] if reduced else [{"a": "restart", "crash": 1}])
    if nlocal < LOCALMAX:
        out += [{"a": "uev", "k": 1}, {"a": "lq"}]
    return out


def amplify(ctx, scheds, rep, two_step_for=3, limit=6):
    """Divergence-directed amplification: the model no longer predicts the code after a diverging line, so the
    neighbourhood of the diverging prefixes is searched directly: prefix (up to and including the diverging input d) followed
    by every single next input y; for the first few prefixes also by every pair <<x, y>> over a reduced alphabet and by
    <<x, d', y>> (the diverging input applied once more, with its time varied, in a changed context, e.g. after a restart,
    followed by a message at any time).  A prefix that has
    processed a message at MAX is also tried without those messages (after one, every report carries the tag of the
    recorded wrap finding); such prefixes come first."""
    start, pos = {}, 1
    for i, (b, sn, s) in enumerate(scheds):
        start[i] = pos
        pos += 1 + len(s)
    first = {}
    for (tid, l) in rep.diverged:
        k = l - start[tid]
        if tid not in first or k < first[tid]:
            first[tid] = k
    prefixes, seen = [], set()
    def tainted(steps):
        return any(st.get("lt") == MAX or any(sl["lt"] == MAX for sl in st.get("evs", [])) for st in steps)

    def sanitized(steps):
        """The same history without the messages at MAX (any input sequence is a legitimate history): reports found
        behind it do not carry the tag of the recorded wrap finding."""
        res = []
        for st in steps:
            if st.get("lt") == MAX:
                continue
            if st["a"] == "merge":
                st = dict(st)
                st["evs"] = [sl for sl in st["evs"] if sl["lt"] != MAX]
                st["elt"] = 20 if st["elt"] == MAX else st["elt"]
                st["qlt"] = 20 if st["qlt"] == MAX else st["qlt"]
            res.append(st)
        return res

    cands = []
    for tid, k in sorted(first.items(), key=lambda x: x[1]):
        b, sn, s = scheds[tid]
        pre = s[:k]
        if tainted(pre):
            if not tainted([pre[-1]]) or pre[-1]["a"] == "merge":
                cands.append((0, b, sn, sanitized(pre[:-1]) + sanitized([pre[-1]])))
            cands.append((1, b, sn, pre))
        else:
            cands.append((0, b, sn, pre))
    prefixes, seen = [], set()
    for (t, b, sn, pre) in sorted(cands, key=lambda x: (x[0], len(x[3]))):
        key = json.dumps([b, sn, pre])
        if pre and key not in seen:
            seen.add(key)
            prefixes.append((b, sn, pre))
        if len(prefixes) >= limit:
            break
    out = []
    for n, (b, sn, pre) in enumerate(prefixes):
        nloc = len([x for x in pre if x["a"] in ("uev", "lq")])
        for x in alphabet(sn, nloc):
            out.append((b, sn, pre + [x]))
        if n < two_step_for:
            for x in alphabet(sn, nloc, reduced=True):
                nl2 = nloc + (1 if x["a"] in ("uev", "lq") else 0)
                for y in alphabet(sn, nl2, reduced=True):
                    out.append((b, sn, pre + [x, y]))
                d = pre[-1]
                if d["a"] in ("ev", "qry", "merge", "join"):
                    # the diverging input once more, with its time varied, in the changed context, then any message
                    tkey = "elt" if d["a"] in ("merge", "join") else "lt"
                    for tau in sorted(set([d[tkey], 1, 3, 20, MAX])):
                        d2 = dict(d)
                        d2[tkey] = tau
                        if d["a"] == "join":      # a real peer's clock is above everything it holds
                            pos = lambda t: t if t <= MAX // 2 else t + 100000
                            d2["evs"] = [sl for sl in d["evs"] if pos(sl["lt"]) < pos(tau)]
                        for y in alphabet(sn, nl2):
                            if y["a"] in ("ev", "qry") and y.get("k", y.get("id")) == 1:
                                out.append((b, sn, pre + [x, d2, y]))
    return prefixes, out


def run_seq(ctx, prop, replay=None):
    """Shared by C05, C14 and the C04 half: returns (violations, coverage)."""
    binary = build_seq(ctx)
    pre = PREFIX[prop]
    mc = None
    if replay:
        v = json.load(open(replay))
        scheds = [(tuple(v["b"]) if isinstance(v.get("b"), list) else v.get("b", 2), v.get("snap", 1), v["schedule"])]
    else:
        mc = model_check(ctx, prop)
        num, depth = (1600, 40) if ctx.thorough() else (240, 30)
        rng = random.Random(ctx.seed)
        scheds = directed(mc[2])
        for s in simulate(ctx, num, depth):
            sn = 1 if any(st["a"] == "restart" for st in s) else rng.choice([0, 1])
            scheds.append(((rng.choice(BS), rng.choice(BS)), sn, s))      # event and query ring sizes drawn independently
    viol, rep = judge(ctx, binary, scheds, pre, "a")
    emb = embedding_law(ctx) if ctx.thorough() and not replay else None
    if rep.diverged:
        ctx.log("diverged at %s" % rep.diverged[:5])
    nsteps = 0
    kinds = {}
    for (b, sn, s) in scheds:
        nsteps += len(s)
        for st in s:
            kinds[st["a"]] = kinds.get(st["a"], 0) + 1
    amp = {"prefixes": 0, "schedules": 0, "lines": 0, "divergences": 0}
    if rep.diverged and not replay and not vlib.classify(prop, viol)[0]:
        # the model does not predict the code after these lines: search their neighbourhood directly (DESIGN 2.5)
        prefixes, ext = amplify(ctx, scheds, rep)
        ctx.log("amplifying %d diverging prefix(es): %d extended schedules" % (len(prefixes), len(ext)))
        v2, rep2 = judge(ctx, binary, ext, pre, "amp")
        viol += v2
        amp = {"prefixes": len(prefixes), "schedules": len(ext), "lines": rep2.lines, "divergences": len(rep2.diverged)}
    cov = {
        "states": mc[0] if mc else 1, "transitions": mc[1] if mc else 1, "exhaustive": bool(mc),
        "model_constants": "MAX=%d (stands for 2^64-1), buffer sizes 1..4 (chosen at Init); exhaustive configs: %s; simulation: times "
                           "%s+%s, %d contents, query ids 1..3, push/pull <=2 slots x <=2 events" % (
                               MAX, "; ".join(mc[3]) if mc else "-", LOW, HIGH, NC),
        "traces_validated_against_impl": rep.traces, "trace_lines": rep.lines, "divergences": len(rep.diverged),
        "divergence_amplification": amp,
        "evaluations": nsteps, "distinct_nontrivial": len(set(json.dumps(x) for x in scheds)), "inputs_by_kind": kinds,
        "rule": "TLC -simulate behaviours of SerfEvents (gossip events/queries incl. duplicates and window-edge times, push/pull "
                "merges with all isJoin/join-ignore combinations, local UserEvent/Query, graceful and crash restarts from the "
                "snapshot) plus directed schedules (the shortest TLC counterexample for the recorded finding; restart / "
                "ignore-old join / old message histories) under every buffer size, applied to a real quiet Serf node (buffer "
                "size drawn per schedule); every step validated by TLC; a diverging line triggers the execution of all 1-input "
                "(and reduced 2-input) extensions of the diverging prefix with the monitors on; distinct = distinct (buffer "
                "size, input sequence) pairs",
        "samples": [scheds[0][2][:6]] if scheds else [],
    }
    if emb:
        cov["unbounded_embedding_law"] = emb
    return viol, cov


def embedding_law(ctx):
    """Thorough tier: the time embedding the harness uses (up() in harness/cmd/events/main.go: t for t <= MAX/2, 2^64-1-(MAX-t)
    above) and SerfEventOps' SlotIx / Pos are what they claim for EVERY MAX < 2^32, every time, ring sizes 1..8 (spec/EmbedLaw.tla,
    Apalache; TLC cannot evaluate 2^64); the naive slot t % b must be refuted; TLC ties EmbedLaw's operators to SerfEventOps'.
    Unexpected outcomes are spec errors (exit 2), never violations."""
    for inv, want in (("Law", "ok"), ("NaiveSlot", "cex")):
        got = vlib.apalache(ctx, "EmbedLaw", ["--init=Init", "--inv=" + inv, "--length=0"])
        if got != want:
            raise vlib.Inconclusive("EmbedLaw: apalache --inv=%s gave %s, expected %s -- spec error, no verdict" % (inv, got, want))
    r = vlib.tlc(ctx, "MC_EmbedLaw", "INIT Init\nNEXT Next\nCONSTANT MAX = %d\nINVARIANT AgreeAll\nINVARIANT AgreeHere\n" % MAX, workers=2)
    if r.violated:
        raise vlib.Inconclusive("MC_EmbedLaw violated %s -- spec error, no verdict" % r.violated)
    return {"tool": "apalache-mc 0.58.0: MAX any natural in 3..2^32-1, times 0..MAX, ring sizes 1..8; TLC ties the operators to SerfEventOps (MAX 3..40)",
            "obligations": ["SlotIx(b,t) = E(t) % b", "0 <= E(t) < 2^64", "Pos order = order of real values", "E(MAX) = 2^64-1, E(0) = 0",
                            "E(t+1) = E(t)+1 except across the gap", "E(Wrap(t+1)) = (E(t)+1) mod 2^64",
                            "window test TooOld on model times = on real values", "naive slot t % b refuted"]}


ASSUME_SEQ = ["deliveries are read from Config.EventCh after a marker pushed through the head of the event pipeline came out",
              "the re-broadcast decision is read synchronously from the broadcast queues after every call",
              "model times 0..MAX are embedded into uint64 with MAX |-> 2^64-1; constants keep clocks away from the embedding gap",
              "state (buffers, minimum times) is read through an overlay accessor"]


def run_c04_events(ctx):
    """(violations, coverage) of the user-event / query clauses of C04 (names C04_*), for the lead's C04 check."""
    return run_seq(ctx, "C04")


def run(ctx, replay=None):
    if ctx.prop == "C06":
        return run_c06(ctx, replay)
    viol, cov = run_seq(ctx, ctx.prop, replay)
    new, known = vlib.classify(ctx.prop, viol)
    if not new and cov["divergences"]:
        vlib.write_evidence(ctx, "model_checking", cov, ASSUME_SEQ, 0)
        raise vlib.Inconclusive("%d trace line(s) of the real node are not explained by spec/SerfEvents.tla "
                                "(model and code disagree; no verdict)" % cov["divergences"])
    vlib.finish(ctx, "model_checking", cov, ASSUME_SEQ, new, known)


# ----------------------------------------------------------------------------- C06 (concurrent originators)

INSTR = ["Serf.UserEvent", "Serf.Query", "Serf.registerQueryResponse", "Serf.handleUserEvent", "Serf.handleQuery"]
CONC_TRACE_CFG = "SPECIFICATION TraceSpec\nINVARIANT Done\nCONSTANT MAX = %d\nCONSTANT NT = 1\nCONSTANT Progs = {}\n" % MAX
ASSUME_CONC = ["a yield point precedes every statement of UserEvent, Query, registerQueryResponse, handleUserEvent and "
               "handleQuery (and Lock calls there are cooperative); LamportClock operations run as single steps",
               "the Lamport time of a locally issued message is read from the broadcast the call queued",
               "model times 0..MAX are embedded into uint64 with MAX |-> 2^64-1"]


def build_conc(ctx):
    inst = vlib.instrument(ctx, [{"file": "serf/serf.go", "funcs": INSTR, "locks": True, "require": INSTR},
                                 {"file": "serf/lamport.go", "funcs": ["*"], "locks": False,
                                  "require": ["LamportClock.Time", "LamportClock.Increment", "LamportClock.Witness"]}])
    ov = vlib.overlay_for(ctx, hook_pkgs=[("serf", "serf_state"), ("serf", "serf_events"), ("serf", "serf_yield")],
                          replaced=inst)
    return vlib.go_build(ctx, "events", overlay=ov, name="bin-events-conc")


def mc_conc_cfg(nt, nl, loclen, inlen, vals, inv, bs=(1, 2), local=("uev", "lq")):
    return ("CONSTANT MAX = %d\nCONSTANT NT = %d\nCONSTANT BsC = %s\nCONSTANT NL = %d\nCONSTANT LocLen = %d\n"
            "CONSTANT InLen = %d\nCONSTANT Vals = %s\nCONSTANT LocalOps = %s\nCONSTANT Progs <- MCProgs\n"
            "INIT Init\nNEXT Next\nINVARIANT %s\n" % (MAX, nt, tla_set(bs), nl, loclen, inlen, tla_set(vals),
                                                      tla_set(list(local)), inv))


def L(op):
    return {"op": op, "lt": 0, "x": 0}


def I(op, lt, x=1):
    return {"op": op, "lt": lt, "x": x}


def conc_programs(ctx):
    rng = random.Random(ctx.seed)
    must = [
        # an incoming message racing local calls: a local Increment between the load and the CAS of the incoming witness
        {"b": 2, "th": [[I("ev", 5)], [L("uev"), L("uev")]]},
        {"b": 2, "th": [[I("qry", 5)], [L("lq"), L("lq")]]},
        {"b": 2, "th": [[L("uev")], [L("uev")]]},
        {"b": 2, "th": [[L("lq")], [L("lq")]]},
        {"b": 1, "th": [[L("uev"), L("uev")], [L("uev"), L("lq")]]},
        {"b": 2, "th": [[L("uev"), L("lq")], [L("lq"), L("uev")]]},
        {"b": 2, "th": [[L("uev")], [L("uev")], [I("ev", 3)]]},
        {"b": 2, "th": [[L("lq")], [L("lq")], [I("qry", 2)]]},
        {"b": 3, "th": [[L("uev"), L("uev")], [I("ev", 1), I("ev", 4, 2)]]},
        {"b": 1, "th": [[L("lq"), L("lq")], [I("qry", 1), I("qry", 3, 2)]]},
        {"b": 2, "th": [[L("uev")], [I("ev", MAX)]]},
        {"b": 2, "th": [[L("uev"), L("uev")], [I("ev", 1, 111), I("ev", 2, 111)]]},   # echoes of own events
    ]
    vals = [0, 1, 2, 3, 5, MAX - 1, MAX]
    extra = []
    n = 28 if ctx.thorough() else 4
    for _ in range(n):
        nt = rng.choice([2, 2, 3]) if ctx.thorough() else 2
        th = []
        for t in range(nt):
            if t == nt - 1 and rng.random() < 0.6:
                th.append([I(rng.choice(["ev", "qry"]), rng.choice(vals), rng.choice([1, 2])) for _ in range(rng.choice([1, 2]))])
            else:
                th.append([L(rng.choice(["uev", "lq"])) for _ in range(rng.choice([1, 2]))])
        extra.append({"b": rng.choice(BS), "th": th})
    if ctx.thorough():
        must.append({"b": 2, "th": [[L("uev")], [L("uev")], [L("uev")]]})
        must.append({"b": 2, "th": [[L("lq")], [L("uev")], [L("lq")], [I("qry", 1), I("ev", 1)]]})
    return must + extra


def run_conc(ctx, binary, progs, tag, maxpre, budget, nrand, choices=None):
    pp = os.path.join(ctx.scratch, "progs-%s.ndjson" % tag)
    with open(pp, "w") as f:
        for i, p in enumerate(progs):
            rec = {"id": i, "prog": p}
            if choices is None and maxpre >= 1 and len(p["th"]) == 2 and sum(len(t) for t in p["th"]) <= 3:
                # small programs: every schedule with <= 2 focused preemptions (complete within the budget)
                rec["maxpre"], rec["budget"] = 2, max(budget, 400)
            if choices is not None and choices[i] is not None:
                rec["choices"] = choices[i]
            f.write(json.dumps(rec) + "\n")
    tp = os.path.join(ctx.scratch, "ctrace-%s.ndjson" % tag)
    rc, out = vlib.run_driver(ctx, binary, ["-mode", "conc", "-in", pp, "-out", tp, "-max", str(MAX), "-maxpre", str(maxpre),
                                            "-budget", str(budget), "-random", str(nrand)], timeout=2400)
    if rc != 0:
        raise vlib.Inconclusive("events driver (conc) failed rc=%d:\n%s" % (rc, out[-3000:]))
    return tp, json.loads(out.strip().splitlines()[-1])


def run_c06(ctx, replay=None):
    binary = build_conc(ctx)
    thorough = ctx.thorough()
    mc = None
    fixed = None
    if replay:
        v = json.load(open(replay))
        progs, fixed = [v["prog"]], [v.get("choices")]
    else:
        tot_d = tot_g = 0
        cfgs = [(2, 2, 2, 0, [1], "2 callers x 2 calls (UserEvent/Query)"),
                (3, 2, 1, 1, [1, 3, MAX], "2 callers x 1 call + 1 incoming event/query with times {1,3,MAX}")]
        if thorough:
            cfgs += [(3, 3, 1, 0, [1], "3 callers x 1 call"),
                     (3, 2, 1, 2, [1, 3, MAX], "2 callers x 1 call + 2 incoming with times {1,3,MAX}"),
                     (3, 2, 2, 1, [MAX], "2 callers x 2 calls + 1 incoming with time MAX")]
        for (nt, nl, ll, il, vals, d) in cfgs:
            # without a message at MAX nothing at all may be violated (concurrent callers included)
            inv = "C06" if MAX in vals else "C06Strict"
            r = vlib.tlc(ctx, "MC_SerfEventsConc", mc_conc_cfg(nt, nl, ll, il, vals, inv), timeout=3000)
            if r.violated:
                raise vlib.Inconclusive("the model violates C06 beyond the recorded finding -- spec error, no verdict:\n" + r.out[-3000:])
            tot_d += r.distinct
            tot_g += r.generated
        # the remaining finding (wrap at MAX) must be reachable in the model, otherwise its waiver is vacuous
        r = vlib.tlc(ctx, "MC_SerfEventsConc", mc_conc_cfg(2, 1, 1, 1, [MAX], "C06StrictLater", bs=(2,), local=("uev",)), timeout=3000)
        if not r.violated:
            raise vlib.Inconclusive("the recorded finding (times not later after the wrap at MAX) is not reachable in the model")
        mc = (tot_d, tot_g, "; ".join(c[5] for c in cfgs))
        progs = conc_programs(ctx)
    maxpre, budget, nrand = (2, 250, 30) if thorough else (1, 120, 12)
    tp, summary = run_conc(ctx, binary, progs, "a", maxpre, budget, nrand, choices=fixed)
    ctx.log("driver:", summary)
    rep = vlib.validate(ctx, "Trace_SerfEventsConc", CONC_TRACE_CFG, tp, timeout=3000)
    if rep.diverged:
        ctx.log("diverged at %s" % rep.diverged[:5])
    prog_of, choices_of, cur = {}, {}, None
    for ln in vlib.read_ndjson(tp):
        if ln["act"]["a"] == "reset":
            cur = ln["act"]["id"]
            prog_of[cur] = ln["act"]["prog"]
            choices_of[cur] = []
        else:
            choices_of[cur] += ln["obs"]["ch"]
    viol, per_key, cand = [], {}, []
    for (tid, line, clauses, tags) in rep.monitors:
        key = ",".join(sorted(clauses)) + "|" + ",".join(sorted(tags))
        if per_key.get(key, 0) >= 2:
            continue
        per_key[key] = per_key.get(key, 0) + 1
        cand.append((tid, clauses, tags))
    if cand:
        # confirmation: the same schedules (the scheduler's choice at every step) executed again from scratch
        t2, _ = run_conc(ctx, binary, [prog_of[tid] for (tid, _, _) in cand], "confirm", 0, 1, 0,
                         choices=[choices_of[tid] for (tid, _, _) in cand])
        rep2 = vlib.validate(ctx, "Trace_SerfEventsConc", CONC_TRACE_CFG, t2)
        for n, (tid, clauses, tags) in enumerate(cand):
            again = [m for m in rep2.monitors if m[0] == n and set(m[2]) & set(clauses) and set(m[3]) == set(tags)]
            if again:
                viol.append({"clauses": sorted(clauses), "tags": sorted(tags), "schedule": prog_of[tid], "prog": prog_of[tid],
                             "choices": choices_of[tid], "steps": thread_sequence(t2, n)})
            else:
                ctx.log("report %s for program %s not reproduced; ignored" % (clauses, prog_of[tid]))
    new, known = vlib.classify(ctx.prop, viol)
    cov = {
        "states": mc[0] if mc else 1, "transitions": mc[1] if mc else 1, "exhaustive": bool(mc),
        "model_constants": "MAX=%d (stands for 2^64-1), buffer sizes {1,2}; %s" % (MAX, mc[2] if mc else "-"),
        "traces_validated_against_impl": rep.traces, "trace_lines": rep.lines, "divergences": len(rep.diverged),
        "evaluations": summary["schedules"], "distinct_nontrivial": rep.traces,
        "programs": summary["programs"], "programs_with_complete_dfs": summary["dfs_complete"],
        "local_calls_without_queued_message": summary["odd"],
        "rule": "concurrent programs (2-4 threads of 1-2 UserEvent/Query calls, optionally a thread of incoming events/queries) "
                "run on a real quiet Serf node with yield-instrumented UserEvent/Query/registerQueryResponse/handleUserEvent/"
                "handleQuery under every schedule with <=%d preemptions (budget %d per program) plus %d seeded random schedules; "
                "each schedule is one trace validated step by step against SerfEventsConc.tla" % (maxpre, budget, nrand),
        "samples": progs[:2],
    }
    if not new and rep.diverged:
        vlib.write_evidence(ctx, "model_checking", cov, ASSUME_CONC, 0)
        raise vlib.Inconclusive("%d trace line(s) of the real code are not explained by spec/SerfEventsConc.tla "
                                "(model and code disagree; no verdict)" % len(rep.diverged))
    vlib.finish(ctx, "model_checking", cov, ASSUME_CONC, new, known)


def thread_sequence(trace_path, tid):
    """The thread that ran at each step of one trace (the failing interleaving), run-length encoded."""
    seq, cur = [], None
    for ln in vlib.read_ndjson(trace_path):
        if ln["act"]["a"] == "reset":
            cur = ln["act"]["id"]
        elif cur == tid:
            t, n = ln["act"]["t"], ln["act"]["n"]
            if seq and seq[-1][0] == t:
                seq[-1][1] += n
            else:
                seq.append([t, n])
    return seq


if __name__ == "__main__":
    # stand-alone run of the C04 half (the lead's C04 check calls run_c04_events itself):
    #   python3 tools/families/events.py [quick|thorough]        (VERIF_SEED, VERIF_REPO as for ./check)
    tier = sys.argv[1] if len(sys.argv) > 1 else "quick"
    c = vlib.Ctx("C04", tier, int(os.environ.get("VERIF_SEED", "1") or "1"))
    try:
        viol, cov = run_c04_events(c)
    except vlib.Inconclusive as e:
        print("INCONCLUSIVE C04-events: %s" % e)
        sys.exit(2)
    for v in viol:
        print("C04-events violation clauses=%s tags=%s b=%s schedule=%s" % (v["clauses"], v["tags"], v["b"], json.dumps(v["schedule"])[:300]))
    print("C04-events: %d violation(s) (%d untagged), divergences=%d, traces=%d, lines=%d, states=%d wall=%.1fs" % (
        len(viol), len([v for v in viol if not v["tags"]]), cov["divergences"], cov["traces_validated_against_impl"],
        cov["trace_lines"], cov["states"], time.time() - c.t0))
    sys.exit(1 if [v for v in viol if not v["tags"]] else 0)
