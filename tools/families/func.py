"""func family: six mostly functional properties, F-pattern (DESIGN.md 2.2, 4.12).
C31 ConfigMerge, C09 MsgShapes, C32 TagCodec, C21 RTT, C20 Coord, C27 HandlerContract."""
PROPS = ["C09", "C20", "C21", "C27", "C31", "C32"]
_TECH = ('TLA+ definition of the function (F-pattern) + TLC exhaustive check of its laws and enumeration of the bounded '
         'input domain (state dump); every TLC-enumerated input executed on the real code; TLC trace validation: '
         'observed output = definition(input), property monitors on observed outputs')
# id: (level, what the check establishes, trusted base / assumptions, technique, DESIGN.md section)
CLAIMS = {
    'C31': (
        'model_checking',
        'TLC checks associativity, zero-identity and fold=pairwise of the merge definition (spec/ConfigMerge.tla) over every triple of '
        'abstract sources per field kind (override-if-set, or-switch, later-wins compression switch, tag map, list) and enumerates '
        'these triples; each one is executed on the real MergeConfig (pairwise, left and right nesting), DecodeConfig and '
        'ReadConfigPaths (three files, and a directory with files to be ignored) with every exported field of agent.Config '
        '(found by reflection; an unclassified field makes the check inconclusive) set at once to field-specific concrete values; '
        'TLC validates every field of every result against the definition and checks that identically built copies of the inputs '
        'are unchanged.',
        'Bounded: three abstract values per scalar, two tag keys (second key one value in the quick tier), lists up to length 2 (thorough 3); one concrete value per abstract '
        'value and field. The *Raw duration strings are read as parse intermediates, not settings. Negative integers are not explored '
        '(Protocol <= 0 counts as unset in the code).',
        _TECH, '5 C31',
    ),
    'C09': (
        'exploration',
        'TLC enumerates a structured shape space per network entry point (spec/MsgShapes.tla: NotifyMsg for every message type with up to '
        'W deviating fields x {absent,nil,empty,one byte,wrong msgpack type,oversized,lying length header}, queries with internal '
        '_serf_* names x payload classes x filter classes x flags x node configuration (keyring, coordinates), relay envelopes, '
        'query responses to a running query, MergeRemoteState, NotifyPingComplete, NotifyJoin/Update/Leave/Merge/Alive/Conflict '
        'metadata, and every proper prefix of every valid encoding); each shape is concretized and fed to a real quiet node in a '
        'child process; monitors: the process and the calling goroutine survive, Members() answers and lists the node alive, a user '
        'event issued afterwards is delivered.',
        'Exploration of structured shapes, one concrete byte string per shape: arbitrary byte strings inside the msgpack decoder are '
        'not enumerated (DESIGN.md section 7). Trusts the hand-written msgpack writer of the harness and the attribution of process '
        'deaths by re-running suspects alone.',
        _TECH, '5 C09',
    ),
    'C32': (
        'exploration',
        'TLC checks the abstract tag codec (spec/TagCodec.tla: role-only below protocol 3, magic byte, map otherwise) against the '
        'property for all tag maps over a 3-symbol alphabet containing the magic byte 0xFF, NUL and the empty string, protocols 2..5, '
        'and enumerates them; each is encoded by a real node (Config.Tags or SetTags -> NodeMeta(512)) and decoded by a second real '
        'node (NotifyJoin/NotifyUpdate -> Members()); tag maps of encoded length 8..600 bytes go through Create/SetTags (accepted iff '
        '<= 512); user events, queries and replies cross two real nodes, the reply additionally through a relay node with the bytes '
        'captured on the transport; relay envelopes through NotifyMsg must be forwarded byte for byte.',
        'Codec fidelity over arbitrary field values is sampled through a small alphabet, not proved; join/leave/push-pull kinds cross the '
        'real codec in the membership checks, not here. The case analysis (protocol gate, magic byte, size gate, relay) is modelled.',
        _TECH, '5 C32',
    ),
    'C21': (
        'exploration',
        'TLC checks symmetry and non-negativity of the documented formula (spec/RTT.tla) and enumerates an exact-arithmetic sub-lattice '
        '(integer components on Pythagorean directions in dimensions 1-3, integer heights, adjustment pairs placed around the sign '
        'change of the adjusted distance, scaled by a power of two) on which IEEE arithmetic is exact: the real DistanceTo must equal '
        'the integer model exactly in both directions; dimension mismatches must raise DimensionalityConflictError. Seeded float classes '
        '(magnitudes 0..1e4 s, adjustment classes none/small/cancelling/large/huge) are judged for non-negativity and symmetry only.',
        'Decides the case analysis (adjustment applied only when the adjusted value stays positive, both heights, both adjustments, '
        'dimension error); does NOT decide "up to floating-point rounding" for arbitrary floats.',
        _TECH, '5 C21',
    ),
    'C20': (
        'exploration',
        'TLC checks the protocol skeleton (spec/Coord.tla: accept iff the reported coordinate is finite with the right dimension and '
        '0 <= rtt <= 10 s; a rejected observation changes neither the coordinate nor the cache; a peer is cached only on accept) for all '
        'observation sequences up to depth 4 (thorough 5) over 7 coordinate classes x 4 rtt classes x 2 peers; TLC-simulated sequences '
        'are run on a real quiet node through pingDelegate.NotifyPingComplete with seeded adversarial floats per class; after every step '
        'the real coordinate (finite, dimensionality, height >= min, 0 <= error <= max while peers report non-negative errors), the '
        'cache and the rejected-counter are observed and validated by TLC.',
        'The floating-point clauses are monitors sampled on the executed histories, not proved (DESIGN.md section 7).',
        'TLA+ spec + TLC exhaustive check of the skeleton; TLC-simulated observation sequences replayed on a real node; TLC trace '
        'validation with property monitors on the observed coordinate',
        '5 C20',
    ),
    'C27': (
        'exploration',
        'TLC checks the handler contract definition (spec/HandlerContract.tla: filter grammar -> match predicate, sanitized SERF_TAG_* '
        'names, stdin escaping, payload newline rule, reply rule exit 0 and output and last 8 KB fits the limit) against its own laws and '
        'enumerates filter specs x events, tag maps/names/Lamport times, member lists with tabs/newlines/backslashes/=/, in names, roles '
        'and tags, payloads, and reply size/exit/stream/limit classes; each input runs the real ScriptEventHandler with /bin/sh scripts '
        'that dump /proc/$$/environ and stdin; queries are real *serf.Query values of a real node and the reply is captured on its '
        'transport; TLC validates every observation.',
        'Runs real shells over a small alphabet (no NUL bytes); reply sizes stay clear of the exact limit boundary; tag order within the '
        'tags field is unspecified.',
        _TECH, '5 C27',
    ),
}
import json
import os
import re

import vlib

# ----------------------------------------------------------------------------- known findings overlay
# known_findings.json belongs to the lead; the entries proposed by this family live in func_known.json
# (same schema) until merged.  An id already present in known_findings.json wins.
_orig_known = vlib.known_findings


def _known(prop):
    base = _orig_known(prop)
    ids = {k["id"] for k in base}
    try:
        all_ids = {k["id"] for k in json.load(open(os.path.join(vlib.VERIF, "known_findings.json"))).get("findings", [])}
    except Exception:
        all_ids = ids
    p = os.path.join(os.path.dirname(os.path.abspath(__file__)), "func_known.json")
    extra = []
    if os.path.exists(p):
        for k in json.load(open(p)).get("findings", []):
            if k["property"] == prop and k["id"] not in all_ids:
                extra.append(k)
    return base + extra


if getattr(vlib.known_findings, "__name__", "") != "_known":
    vlib.known_findings = _known

# ----------------------------------------------------------------------------- shared helpers

TRACE_CFG = "SPECIFICATION TraceSpec\nINVARIANT Done\n"


FUNC_HOOKS = [("serf", "serf_func"), ("coordinate", "coordinate_func")]   # accessors used by the C20 mode of the driver


def build(ctx, hook_pkgs=FUNC_HOOKS):
    ov = vlib.overlay_for(ctx, hook_pkgs=list(hook_pkgs)) if hook_pkgs else None
    return vlib.go_build(ctx, "func", overlay=ov)


_STATE = re.compile(r"^State \d+:\s*$", re.M)


def dump_states(ctx, module, cfg, timeout=900, workers=None, keep=None):
    """Exhaustive TLC run with -dump: returns (TLCResult, [ {var: value} for every distinct state ])."""
    dump = os.path.join(ctx.scratch, "dump-%d" % (ctx.ntlc + 1))
    r = vlib.tlc(ctx, module, cfg, timeout=timeout, workers=workers, extra=["-dump", dump])
    states = []
    path = dump + ".dump"
    if os.path.exists(path):
        with open(path) as f:
            text = f.read()
        os.remove(path)
        for st in _STATE.split(text)[1:]:
            ms = list(vlib._CONJ.finditer(st))
            vals = {}
            for i, m in enumerate(ms):
                end = ms[i + 1].start() if i + 1 < len(ms) else len(st)
                vals[m.group(1)] = vlib.parse_tla(st[m.end():end])
            if keep is None or keep(vals):
                states.append(vals)
    return r, states


def execute(ctx, binary, mode, scheds, tag, extra=(), timeout=1800, start_id=0):
    sp = os.path.join(ctx.scratch, "sched-%s.ndjson" % tag)
    tp = os.path.join(ctx.scratch, "trace-%s.ndjson" % tag)
    wd = ctx.sub("work-%s" % tag)
    vlib.write_schedules(sp, scheds, start_id=start_id)
    rc, out = vlib.run_driver(ctx, binary, ["-mode", mode, "-in", sp, "-out", tp, "-dir", wd] + list(extra), timeout=timeout)
    if rc == 4:
        raise vlib.Inconclusive("driver refuses to run: %s" % out.strip()[-2000:])
    if rc != 0:
        raise vlib.Inconclusive("func driver (%s) failed rc=%d:\n%s" % (mode, rc, out[-3000:]))
    return tp


def confirm(ctx, rep, sched_of, rerun, per_key=1, max_keys=60, line_sched=None):
    """Monitor reports -> violations.  Reports are grouped by (clauses, tags); the schedules of the first
    occurrence(s) of every group are executed a second time from scratch (one batch: rerun([sched...]) ->
    TraceReport whose trace ids are the positions in the batch) and a group is kept only if the same clauses
    with the same tags fail again on its schedule."""
    groups = {}
    for (tid, line, clauses, tags) in rep.monitors:
        key = (tuple(sorted(clauses)), tuple(sorted(tags)))
        groups.setdefault(key, [])
        ref = line if line_sched else tid     # line_sched: schedules hold many inputs; re-execute the failing input only
        if ref not in groups[key]:
            groups[key].append(ref)
    if line_sched:
        sched_of = line_sched
    if not groups:
        return []
    keys = sorted(groups)[:max_keys]
    if len(groups) > max_keys:
        ctx.log("%d distinct monitor report groups; only the first %d are confirmed" % (len(groups), max_keys))
    batch, owner = [], []
    for key in keys:
        for tid in groups[key][:per_key]:
            batch.append(sched_of(tid))
            owner.append(key)
    rep2 = rerun(batch)
    again = {}
    for (tid, line, clauses, tags) in rep2.monitors:
        again.setdefault(tid, set()).add((tuple(sorted(clauses)), tuple(sorted(tags))))
    res, done = [], set()
    for pos, key in enumerate(owner):
        if key in done:
            continue
        if key in again.get(pos, ()):
            done.add(key)
            res.append({"clauses": list(key[0]), "tags": list(key[1]), "schedule": batch[pos],
                        "occurrences": len(groups[key])})
    for key in keys:
        if key not in done:
            ctx.log("monitor report %s not reproduced on re-execution; ignored" % (key,))
    return res


def expect_model_violation(ctx, module, cfg, what):
    """Non-vacuity of a waiver: the model of the defect must violate the monitor."""
    r = vlib.tlc(ctx, module, cfg, workers=1)
    if not r.violated:
        raise vlib.Inconclusive("the model of the recorded defect (%s) does not violate the monitor: waiver would be vacuous" % what)
    return r


def run(ctx, replay=None):
    return {"C31": run_c31, "C09": run_c09, "C32": run_c32, "C21": run_c21, "C20": run_c20, "C27": run_c27}[ctx.prop](ctx, replay)


# ----------------------------------------------------------------------------- C31

def c31_vectors(states, seed):
    by = {}
    for s in states:
        by.setdefault(s["k"], []).append([s["x"], s["y"], s["z"]])
    kinds = ["ov", "or", "lw", "map", "list"]
    vecs = []
    for k in kinds:
        for i, t in enumerate(by.get(k, [])):
            v = {"a": "vec", "focus": k}
            for j, o in enumerate(kinds):
                if o == k:
                    v[o] = t
                else:
                    lst = by[o]
                    v[o] = lst[(i * (2 * j + 3) + seed * 7 + j) % len(lst)]
            vecs.append(v)
    # switch independence: the driver runs each of these once per bool field of agent.Config; that field takes the
    # triple "hot", all other switches (kinds or, lw) the triple x
    for i, (x, y, _z) in enumerate(by.get("hot", [])):
        v = {"a": "vec", "focus": "hot", "hot": y, "or": x, "lw": x}
        for j, o in enumerate(["ov", "map", "list"]):
            lst = by[o]
            v[o] = lst[(i * (2 * j + 3) + seed * 11 + j) % len(lst)]
        vecs.append(v)
    return vecs


def run_c31(ctx, replay):
    maxlist, maxv2 = (3, 2) if ctx.thorough() else (2, 1)
    consts = "CONSTANT MaxList = %d\nCONSTANT MaxV2 = %d\n" % (maxlist, maxv2)
    binary = build(ctx)
    mc = None
    if replay:
        scheds = [json.load(open(replay))["schedule"]]
    else:
        gcfg = consts + "CONSTANT Defect = \"%s\"\nINIT Init\nNEXT Next\nINVARIANT LawsHold\nINVARIANT C31\n"
        mc, states = dump_states(ctx, "Gen_ConfigMerge", gcfg % "none", keep=lambda s: s["ph"] == "in", workers=2)
        if mc.violated:
            raise vlib.Inconclusive("the merge definition violates %s -- spec error, no verdict" % mc.violated)
        for d in ("never_merged", "shared_tags", "aliased_list", "crossed_switch"):
            expect_model_violation(ctx, "Gen_ConfigMerge", gcfg % d, d)
        scheds = [[v] for v in c31_vectors(states, ctx.seed)]
    tcfg = TRACE_CFG + consts
    tp = execute(ctx, binary, "merge", scheds, "m")
    rep = vlib.validate(ctx, "Trace_ConfigMerge", tcfg, tp)
    def rerun(batch):
        return vlib.validate(ctx, "Trace_ConfigMerge", tcfg, execute(ctx, binary, "merge", batch, "re"))

    viol = confirm(ctx, rep, lambda tid: scheds[tid], rerun)
    new, known = vlib.classify(ctx.prop, viol)
    fields = sorted(set(l["act"]["f"] for l in vlib.read_ndjson(tp)[:200] if l["act"]["a"] == "field"))
    cov = {
        "states": mc.distinct if mc else 1, "transitions": mc.generated if mc else 1, "exhaustive": bool(mc),
        "model_constants": "3 abstract values per override field, 2 per switch, tag maps over 2 keys (values absent,1,2 / absent,1..%d) + nil, "
                           "lists over 2 values up to length %d; all triples of sources per kind" % (maxv2, maxlist),
        "traces_validated_against_impl": rep.traces, "trace_lines": rep.lines, "divergences": len(rep.diverged),
        "evaluations": rep.lines - rep.traces, "distinct_nontrivial": len(set(json.dumps(s) for s in scheds)),
        "fields_of_agent_Config": len(fields), "monitor_reports": len(rep.monitors),
        "rule": "one vector per TLC initial state of Gen_ConfigMerge (kind, triple of abstract sources), the other kinds filled "
                "with other enumerated triples; evaluations = (vector, field) pairs judged by the C31 monitor; MergeConfig x5, "
                "ReadConfigPaths x2 per vector",
        "samples": [scheds[0]] if scheds else [],
    }
    assume = ["one concrete value per (field, abstract value); abstraction back is exact-match (anything else is reported as foreign)",
              "*Raw duration strings are not settings (only their parsed durations are)",
              "inputs are compared with identically constructed copies (reflect.DeepEqual, nil and empty distinguished)"]
    vlib.finish(ctx, "model_checking", cov, assume, new, known)


# ----------------------------------------------------------------------------- C09

def run_c09(ctx, replay):
    w = 2 if ctx.thorough() else 1
    consts = "CONSTANT W = %d\n" % w
    binary = build(ctx)
    mc = None
    if replay:
        scheds = [json.load(open(replay))["schedule"]]
    else:
        gcfg = consts + "CONSTANT Defect = \"%s\"\nINIT Init\nNEXT Next\nINVARIANT C09\nINVARIANT WellFormed\n"
        mc, states = dump_states(ctx, "Gen_MsgShapes", gcfg % "none", keep=lambda s: s["ph"] == "in", workers=2)
        if mc.violated:
            raise vlib.Inconclusive("the model violates %s -- spec error, no verdict" % mc.violated)
        expect_model_violation(ctx, "Gen_MsgShapes", gcfg % "code", "code as found")
        inputs = sorted((s["inp"] for s in states), key=lambda i: json.dumps(i, sort_keys=True))
        # deterministic shuffle by seed: crashes of one kind do not cluster in one child process
        import random
        random.Random(ctx.seed).shuffle(inputs)
        scheds = [[i] for i in inputs]
    tcfg = TRACE_CFG + consts
    tp = execute(ctx, binary, "shapes", scheds, "s", timeout=3000)
    rep = vlib.validate(ctx, "Trace_MsgShapes", tcfg, tp)

    def rerun(batch):
        return vlib.validate(ctx, "Trace_MsgShapes", tcfg, execute(ctx, binary, "shapes", batch, "re", timeout=3000))

    viol = confirm(ctx, rep, lambda tid: scheds[tid], rerun, per_key=2)
    new, known = vlib.classify(ctx.prop, viol)
    lines = [l for l in vlib.read_ndjson(tp) if l["act"]["a"] != "reset"]
    by_ep, calls = {}, 0
    for l in lines:
        by_ep[l["act"]["ep"]] = by_ep.get(l["act"]["ep"], 0) + 1
        calls += l["obs"]["n"]
    msgs = sorted(set(l["obs"]["msg"] for l in lines if l["obs"]["alive"] == 0))
    cov = {
        "states": mc.distinct if mc else 1, "transitions": mc.generated if mc else 1, "exhaustive": bool(mc),
        "model_constants": "W = %d deviating fields per message; families " % w + json.dumps(by_ep, sort_keys=True),
        "traces_validated_against_impl": rep.traces, "trace_lines": rep.lines, "divergences": len(rep.diverged),
        "evaluations": len(lines), "delegate_calls": calls, "distinct_nontrivial": len(set(json.dumps(s) for s in scheds)),
        "crashing_inputs": sum(1 for l in lines if l["obs"]["alive"] == 0), "panic_messages": msgs[:10],
        "rule": "one evaluation per TLC initial state of Gen_MsgShapes (an input shape), concretized with a hand-written msgpack "
                "writer / the real encoder and fed to the real entry point of a real quiet node inside a child process; "
                "delegate_calls counts the concrete byte strings (truncations are expanded by the harness)",
        "samples": [scheds[0]] if scheds else [],
    }
    assume = ["a panic in the goroutine that calls a delegate method counts as a crash (memberlist calls delegates without recover); "
              "panics in goroutines serf spawns kill the child process and are attributed by re-running suspects alone",
              "one concrete byte string per shape; arbitrary byte strings inside the msgpack decoder are not enumerated (DESIGN.md 7)",
              "the local node's own name only appears in conflict notifications (memberlist never reports join/leave of the local node)"]
    vlib.finish(ctx, "exploration", cov, assume, new, known)


# ----------------------------------------------------------------------------- C32

def run_c32(ctx, replay):
    mr, mv, ms = (3, 1, 2) if ctx.thorough() else (2, 1, 1)
    consts = "CONSTANT MaxRole = %d\nCONSTANT MaxVal = %d\nCONSTANT MaxStr = %d\n" % (mr, mv, ms)
    binary = build(ctx)
    mc = None
    if replay:
        scheds = [json.load(open(replay))["schedule"]]
    else:
        gcfg = consts + "CONSTANT Defect = \"%s\"\nINIT Init\nNEXT Next\nINVARIANT C32\nINVARIANT %s\n"
        mc, states = dump_states(ctx, "Gen_TagCodec", gcfg % ("none", "Laws"), keep=lambda s: s["ph"] == "in", workers=2)
        if mc.violated:
            raise vlib.Inconclusive("the codec definition violates %s -- spec error, no verdict" % mc.violated)
        expect_model_violation(ctx, "Gen_TagCodec", gcfg % ("code", "Laws"), "role starting with the magic byte under protocol 2")
        inputs = sorted((s["inp"] for s in states), key=lambda i: json.dumps(i, sort_keys=True))
        scheds = [[i] for i in inputs]
    tcfg = TRACE_CFG + consts
    tp = execute(ctx, binary, "tags", scheds, "t", timeout=3000)
    rep = vlib.validate(ctx, "Trace_TagCodec", tcfg, tp)

    def rerun(batch):
        return vlib.validate(ctx, "Trace_TagCodec", tcfg, execute(ctx, binary, "tags", batch, "re", timeout=3000))

    viol = confirm(ctx, rep, lambda tid: scheds[tid], rerun, per_key=2)
    new, known = vlib.classify(ctx.prop, viol)
    by_ep = {}
    for s in scheds:
        by_ep[s[0]["ep"]] = by_ep.get(s[0]["ep"], 0) + 1
    cov = {
        "states": mc.distinct if mc else 1, "transitions": mc.generated if mc else 1, "exhaustive": bool(mc),
        "model_constants": "alphabet {0xFF, 'a', 0x00} + empty string; role up to %d bytes, other values up to %d, message strings up to %d; "
                           "keys role, empty key, 0xFF-key; protocols 2..5; sizes 8,300,510..514,600; " % (mr, mv, ms) + json.dumps(by_ep, sort_keys=True),
        "traces_validated_against_impl": rep.traces, "trace_lines": rep.lines, "divergences": len(rep.diverged),
        "evaluations": rep.lines - rep.traces, "distinct_nontrivial": len(set(json.dumps(s) for s in scheds)),
        "monitor_reports": len(rep.monitors),
        "rule": "one evaluation per TLC initial state of Gen_TagCodec: tag maps through a real node's NodeMeta and a second real node's "
                "NotifyJoin/NotifyUpdate -> Members(); sized tag maps through Create / SetTags; user events, queries and replies between "
                "real nodes (reply relayed through a third node, bytes captured on the transport); relay envelopes through NotifyMsg",
        "samples": [scheds[0]] if scheds else [],
    }
    assume = ["codec fidelity is checked for strings over a 3-byte alphabet (incl. the magic byte, NUL, the empty string), not for arbitrary values (DESIGN.md 7)",
              "join/leave/push-pull message kinds cross the real codec in the replica family's runs, not here",
              "C32_fitting_rejected (a fitting tag set is accepted) is the completeness reading of the size sentence; the property text itself only needs C32_accepted_too_large"]
    vlib.finish(ctx, "exploration", cov, assume, new, known)


# ----------------------------------------------------------------------------- C21

def run_c21(ctx, replay):
    r2, r3, rich = (4, 1, "TRUE") if ctx.thorough() else (3, 1, "FALSE")
    consts = "CONSTANT R2 = %d\nCONSTANT R3 = %d\nCONSTANT Rich = %s\n" % (r2, r3, rich)
    binary = build(ctx)
    mc = None
    if replay:
        scheds = [json.load(open(replay))["schedule"]]
    else:
        mc, states = dump_states(ctx, "Gen_RTT", consts + "INIT Init\nNEXT Next\nINVARIANT C21\nINVARIANT LawsHold\n",
                                 keep=lambda s: s["ph"] == "in", workers=2, timeout=3000)
        if mc.violated:
            raise vlib.Inconclusive("the RTT definition violates %s -- spec error, no verdict" % mc.violated)
        inputs = sorted((s["inp"] for s in states), key=lambda i: json.dumps(i, sort_keys=True))
        scales = [-9, 0, 10, -3, 7]
        for n, i in enumerate(inputs):   # the lattice unit (2^sc seconds) is a concretization parameter
            i["sc"] = scales[(n + ctx.seed) % len(scales)]
        # many inputs per schedule keeps the trace file small (a reset line per schedule)
        scheds = [inputs[k:k + 50] for k in range(0, len(inputs), 50)]
    tcfg = TRACE_CFG + consts
    tp = execute(ctx, binary, "rtt", scheds, "r")
    rep = vlib.validate(ctx, "Trace_RTT", tcfg, tp, timeout=3000)

    def rerun(batch):
        return vlib.validate(ctx, "Trace_RTT", tcfg, execute(ctx, binary, "rtt", batch, "re"))

    # re-execute only the failing input, not its whole schedule
    lines = vlib.read_ndjson(tp)
    viol = confirm(ctx, rep, None, rerun, line_sched=lambda line: [lines[line - 1]["act"]])
    new, known = vlib.classify(ctx.prop, viol)
    n_exact = sum(1 for s in scheds for i in s if i["ep"] == "exact")
    n_float = sum(1 for s in scheds for i in s if i["ep"] == "float")
    cov = {
        "states": mc.distinct if mc else 1, "transitions": mc.generated if mc else 1, "exhaustive": bool(mc),
        "model_constants": "integer lattice: components -%d..%d (dim 1,2), -%d..%d (dim 3), Pythagorean pairs only, heights/adjustment "
                           "offsets rich=%s, unit 2^sc s with sc in {-9,-3,0,7,10}; %d exact pairs, %d float classes x 40 seeded draws" % (
                               r2, r2, r3, r3, rich, n_exact, n_float),
        "traces_validated_against_impl": rep.traces, "trace_lines": rep.lines, "divergences": len(rep.diverged),
        "evaluations": rep.lines - rep.traces, "distinct_nontrivial": n_exact + n_float,
        "monitor_reports": len(rep.monitors),
        "rule": "one evaluation per TLC initial state of Gen_RTT; exact inputs: DistanceTo both ways must equal the integer model "
                "exactly (in lattice units, no remainder); float classes: only non-negativity and symmetry within 1 ns are judged",
        "samples": [scheds[0][:3]] if scheds else [],
    }
    assume = ["IEEE-754 arithmetic is exact on the lattice (small integers times a power of two, integer Euclidean distances)",
              "homogeneity: the lattice unit is chosen by the harness, the model is unit-free",
              "rounding behaviour for arbitrary floats ('up to floating-point rounding') is NOT decided; a panic with "
              "DimensionalityConflictError counts as the dimensionality error"]
    vlib.finish(ctx, "exploration", cov, assume, new, known)


# ----------------------------------------------------------------------------- C20

def run_c20(ctx, replay):
    np_ = 2
    binary = build(ctx)
    mc = None
    if replay:
        scheds = [json.load(open(replay))["schedule"]]
    else:
        depth = 5 if ctx.thorough() else 4
        mc = vlib.tlc(ctx, "Coord", "CONSTANT NP = %d\nCONSTANT MaxSteps = %d\nCONSTANT WinSize = 3\nINIT Init\nNEXT Next\nINVARIANT C20\n" % (np_, depth), workers=4)
        if mc.violated:
            raise vlib.Inconclusive("the model violates its own monitor %s -- spec error, no verdict" % mc.violated)
        num, sdepth = (4000, 12) if ctx.thorough() else (500, 8)
        _, scheds = vlib.simulate_schedules(ctx, "Gen_Coord", "CONSTANT NP = %d\nCONSTANT MaxSteps = 100000\nCONSTANT WinSize = 3\nINIT GenInit\nNEXT GenNext\n" % np_,
                                            num, sdepth)
        import random
        rng = random.Random(ctx.seed * 7919 + 13)
        for s in scheds:           # which adversarial float of the class: a concretization parameter, part of the schedule
            for st in s:
                st["fv"], st["rv"] = rng.randrange(0, 960), rng.randrange(0, 12)
    tcfg = TRACE_CFG + "CONSTANT NP = %d\nCONSTANT MaxSteps = 100000\nCONSTANT WinSize = 3\n" % np_
    tp = execute(ctx, binary, "coord", scheds, "c")
    rep = vlib.validate(ctx, "Trace_Coord", tcfg, tp)

    def rerun(batch):
        return vlib.validate(ctx, "Trace_Coord", tcfg, execute(ctx, binary, "coord", batch, "re"))

    viol = confirm(ctx, rep, lambda tid: scheds[tid], rerun, per_key=2)
    new, known = vlib.classify(ctx.prop, viol)
    nsteps = sum(len(s) for s in scheds)
    classes = {}
    for s in scheds:
        for st in s:
            k = st["cc"] + "/" + st["rc"]
            classes[k] = classes.get(k, 0) + 1
    acc = sum(1 for l in vlib.read_ndjson(tp) if l["act"]["a"] == "obs" and l["obs"]["acc"] == 1)
    cov = {
        "states": mc.distinct if mc else 1, "transitions": mc.generated if mc else 1, "exhaustive": bool(mc),
        "model_constants": "exhaustive: all observation sequences up to the tier's depth over 7 coordinate classes x 4 rtt classes x %d peers; "
                           "simulation: %d sequences" % (np_, len(scheds)),
        "traces_validated_against_impl": rep.traces, "trace_lines": rep.lines, "divergences": len(rep.diverged),
        "evaluations": nsteps, "accepted_updates": acc, "distinct_nontrivial": len(set(json.dumps(s) for s in scheds)),
        "class_pairs_covered": len(classes),
        "rule": "TLC -simulate behaviours of Coord (completed pings with a coordinate class and an rtt class) executed on a real quiet "
                "node through pingDelegate.NotifyPingComplete with seeded adversarial floats per class; after every step the real "
                "coordinate, the cache and the rejected-counter are observed and judged by the C20 monitor",
        "samples": [scheds[0][:6]] if scheds else [],
    }
    assume = ["the floating-point clauses (finite, dimensionality, height >= min, 0 <= error <= max) are sampled on the histories run, not proved",
              "acceptance is read from the serf.coordinate.rejected counter (the delegate swallows Update's error)"]
    if rep.diverged:
        ctx.log("divergences (model cannot explain the observed accept/cache):", rep.diverged[:5])
    vlib.finish(ctx, "exploration", cov, assume, new, known)


# ----------------------------------------------------------------------------- C27

def run_c27(ctx, replay):
    binary = build(ctx)
    mc = None
    if replay:
        scheds = [json.load(open(replay))["schedule"]]
    else:
        gcfg = "CONSTANT Defect = \"%s\"\nINIT Init\nNEXT Next\nINVARIANT C27\nINVARIANT Laws\n"
        mc, states = dump_states(ctx, "Gen_HandlerContract", gcfg % "none", keep=lambda s: s["ph"] == "in", workers=2)
        if mc.violated:
            raise vlib.Inconclusive("the contract definition violates %s -- spec error, no verdict" % mc.violated)
        expect_model_violation(ctx, "Gen_HandlerContract", gcfg % "per_item", "one run per matching filter item")
        expect_model_violation(ctx, "Gen_HandlerContract", gcfg % "empty_update_ignored", "reload to an empty handler list ignored")
        inputs = sorted((s["inp"] for s in states), key=lambda i: json.dumps(i, sort_keys=True))
        scheds = [[i] for i in inputs]
    tp = execute(ctx, binary, "handler", scheds, "h", timeout=3000)
    rep = vlib.validate(ctx, "Trace_HandlerContract", TRACE_CFG, tp)

    def rerun(batch):
        return vlib.validate(ctx, "Trace_HandlerContract", TRACE_CFG, execute(ctx, binary, "handler", batch, "re"))

    viol = confirm(ctx, rep, lambda tid: scheds[tid], rerun, per_key=2)
    new, known = vlib.classify(ctx.prop, viol)
    by_ep, runs = {}, 0
    for l in vlib.read_ndjson(tp):
        if l["act"]["a"] != "reset":
            by_ep[l["act"]["ep"]] = by_ep.get(l["act"]["ep"], 0) + 1
            runs += l["obs"]["count"] + sum(r[2] for step in l["obs"].get("runs", []) for r in step)
    cov = {
        "states": mc.distinct if mc else 1, "transitions": mc.generated if mc else 1, "exhaustive": bool(mc),
        "model_constants": "families " + json.dumps(by_ep, sort_keys=True) + "; alphabet a TAB NL backslash = , A - _ 7 role",
        "traces_validated_against_impl": rep.traces, "trace_lines": rep.lines, "divergences": len(rep.diverged),
        "evaluations": rep.lines - rep.traces, "script_invocations": runs, "distinct_nontrivial": len(set(json.dumps(s) for s in scheds)),
        "rule": "one evaluation per TLC initial state of Gen_HandlerContract: the real ScriptEventHandler (ParseEventScript, Invoke, "
                "invokeEventScript) runs /bin/sh scripts that dump /proc/$$/environ and stdin; queries are real *serf.Query values of "
                "a real quiet node and the reply is captured on its transport",
        "samples": [scheds[0]] if scheds else [],
    }
    assume = ["runs real shells: the contract's case analysis over a small alphabet (no NUL bytes: exec refuses them)",
              "reply size classes stay clear of the exact limit boundary (encoding overhead bounded by 200 bytes)",
              "tag order in the fourth stdin field is unspecified (Go map order): any order is accepted",
              "empty payload gives empty stdin (docs: 'the payload (if any)')"]
    vlib.finish(ctx, "exploration", cov, assume, new, known)
