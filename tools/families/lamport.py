"""C19: Lamport clock (spec/Lamport.tla)."""
PROPS = ["C19"]
# id: (level, what the check establishes, trusted base / assumptions, technique, DESIGN.md section)
CLAIMS = {
    'C19': (
        'model_checking',
        'TLC checks C19 exhaustively on spec/Lamport.tla (2 threads x 2 calls and 3 threads x 1 call over Time/Increment/Witness with values {0,1,2,MAX-1,MAX}, every interleaving of the atomic accesses, MAX standing for 2^64-1); the real LamportClock, yield-instrumented from the working tree, is run under every schedule with <=2 (thorough 3) preemptions plus random ones by a cooperative scheduler, and every scheduling step is validated by TLC against the spec (subset construction over the unlogged locals) with the C19 monitor on the observed counter and results. Thorough tier adds an unbounded argument: spec/LamportInd.tla (same atomic accesses, MAX symbolic) has an inductive invariant implying C19 below the top, discharged by Apalache for every MAX >= 2 and histories of any length, and TLC checks that LamportInd steps are Lamport!Acts steps.',
        'Trusts TLC, the instrumenter (yield before every statement of lamport.go), the gap embedding of 0..MAX into uint64. The wrap at 2^64-1 is a recorded known finding (tag at_top).',
        'TLA+ spec + TLC exhaustive check; systematic schedule enumeration of the instrumented real code; TLC trace validation with property monitors; Apalache inductive invariant (thorough)',
        '5 C19',
    ),
}
import itertools
import json
import os
import random

import vlib

MAX = 31
TRACE_CFG = """SPECIFICATION TraceSpec
INVARIANT Done
CONSTANT MAX = %d
CONSTANT NT = 1
CONSTANT Progs = {}
""" % MAX


def ops(vals):
    return [{"op": "time", "v": 0}, {"op": "inc", "v": 0}] + [{"op": "wit", "v": v} for v in vals]


def build(ctx):
    inst = vlib.instrument(ctx, [{"file": "serf/lamport.go", "funcs": ["*"], "locks": False,
                                  "require": ["LamportClock.Time", "LamportClock.Increment", "LamportClock.Witness"]}])
    ov = vlib.overlay_for(ctx, hook_pkgs=[("serf", "serf_yield"), ("serf", "serf_lamport")], replaced=inst)
    return vlib.go_build(ctx, "lamport", overlay=ov)


def unbounded(ctx):
    """Thorough tier: C19 below the top for EVERY MAX >= 2 and histories of any length.  spec/LamportInd.tla is a flat,
    typed transcription of the same atomic accesses; Apalache shows IndInv is inductive (Init => IndInv, IndInv /\\ Next =>
    IndInv', IndInv => C19) with MAX symbolic; TLC shows on every reachable step at MAX=4 that LamportInd's steps are
    Lamport!Acts steps (so it is the same design the real code is trace-validated against); the recorded wrap at the top
    must stay reachable (a counterexample to ~bad is expected)."""
    a = ["--cinit=ConstInit"]
    for args, want in ((a + ["--init=Init", "--inv=IndInv", "--length=0"], "ok"),
                       (a + ["--init=IndInit", "--inv=IndInv", "--length=1"], "ok"),
                       (a + ["--init=IndInit", "--inv=C19", "--length=0"], "ok"),
                       (a + ["--init=Init", "--inv=NeverBad", "--length=4"], "cex")):
        got = vlib.apalache(ctx, "LamportInd", args)
        if got != want:
            raise vlib.Inconclusive("LamportInd: apalache %s gave %s, expected %s -- spec error, no verdict" % (" ".join(args), got, want))
    # the harness embedding of 0..MAX into uint64 (up() in harness/cmd/lamport/main.go, same as the events harness):
    # order-preserving, +1 commutes except across the gap, MAX |-> 2^64-1 -- for every MAX (spec/EmbedLaw.tla)
    got = vlib.apalache(ctx, "EmbedLaw", ["--init=Init", "--inv=Law", "--length=0"])
    if got != "ok":
        raise vlib.Inconclusive("EmbedLaw: apalache gave %s, expected ok -- spec error, no verdict" % got)
    ref = vlib.tlc(ctx, "MC_LamportInd", "INIT Init\nNEXT Next\nCONSTANT MAX = 4\nCONSTANT Threads = {1, 2}\n"
                   "CONSTANT Vals <- MCVals\nINVARIANT IndInv\nINVARIANT C19\nPROPERTY RefinesLamport\n")
    if ref.violated:
        raise vlib.Inconclusive("LamportInd does not refine Lamport.tla at MAX=4 (%s) -- spec error, no verdict" % ref.violated)
    return {"tool": "apalache-mc 0.58.0 (inductive step, MAX symbolic, 6 threads) + TLC refinement LamportInd => Lamport!Acts",
            "obligations": ["Init => IndInv", "IndInv /\\ Next => IndInv'", "IndInv => C19", "wrap finding reachable in <= 4 steps",
                            "harness embedding 0..MAX -> uint64 keeps order, +1 and the top (EmbedLaw)"],
            "refinement_states": ref.distinct, "refinement_constants": "MAX=4, 2 threads, witness values 0..4"}


def run(ctx, replay=None):
    binary = build(ctx)
    thorough = ctx.thorough()
    vals = [0, 1, 2, MAX - 1, MAX]
    mc = None
    ind = None
    if replay:
        v = json.load(open(replay))
        progs = [v["prog"]]
    else:
        # exhaustive: every pair of 2-op programs over the alphabet, every interleaving of atomic accesses
        cfg = ("CONSTANT MAX = %d\nCONSTANT NT = 2\nCONSTANT OpLen = %d\nCONSTANT Vals = {%s}\n"
               "CONSTANT Progs <- MCProgs\nINIT Init\nNEXT Next\nINVARIANT C19\n")
        mc = vlib.tlc(ctx, "MC_Lamport", cfg % (MAX, 2, ", ".join(str(x) for x in vals)))
        if mc.violated:
            raise vlib.Inconclusive("model violates C19 beyond the recorded finding -- spec error, no verdict")
        if thorough:
            mc3 = vlib.tlc(ctx, "MC_Lamport", (cfg % (MAX, 1, "0, 1, %d, %d" % (MAX - 1, MAX))).replace("NT = 2", "NT = 3"))
            if mc3.violated:
                raise vlib.Inconclusive("model (3 threads) violates C19 beyond the recorded finding")
            mc.generated += mc3.generated
            mc.distinct += mc3.distinct
        if thorough:
            ind = unbounded(ctx)
        # the finding must be reachable in the model, otherwise the waiver is vacuous
        strict = vlib.tlc(ctx, "MC_Lamport", (cfg % (MAX, 1, "%d" % MAX)).replace("INVARIANT C19", "INVARIANT C19Strict"))
        if not strict.violated:
            raise vlib.Inconclusive("the recorded finding (wrap at MAX) is not reachable in the model")
        rng = random.Random(ctx.seed)
        alpha = ops(vals)
        tprogs = [list(p) for p in itertools.product(alpha, repeat=2)] + [[o] for o in alpha]
        allp = [[a, b] for a in tprogs for b in tprogs]
        must = [[[{"op": "wit", "v": 1}, {"op": "inc", "v": 0}], [{"op": "wit", "v": 2}, {"op": "time", "v": 0}]],
                [[{"op": "wit", "v": 2}], [{"op": "wit", "v": 2}, {"op": "inc", "v": 0}]],
                [[{"op": "inc", "v": 0}, {"op": "inc", "v": 0}], [{"op": "inc", "v": 0}, {"op": "wit", "v": 1}]],
                [[{"op": "wit", "v": MAX - 1}, {"op": "time", "v": 0}], [{"op": "wit", "v": 0}, {"op": "inc", "v": 0}]]]
        k = 400 if thorough else 60
        progs = must + rng.sample(allp, k)
        if thorough:
            t1 = [[o] for o in alpha]
            progs += [[a, b, c] for a in rng.sample(t1, 4) for b in rng.sample(t1, 4) for c in rng.sample(t1, 4)]
    pp = os.path.join(ctx.scratch, "progs.ndjson")
    with open(pp, "w") as f:
        for i, p in enumerate(progs):
            f.write(json.dumps({"id": i, "prog": p}) + "\n")
    tp = os.path.join(ctx.scratch, "trace.ndjson")
    rc, out = vlib.run_driver(ctx, binary, ["-in", pp, "-out", tp, "-max", str(MAX), "-maxpre", "3" if thorough else "2",
                                            "-budget", "600" if thorough else "150", "-random", "30" if thorough else "10"])
    if rc != 0:
        raise vlib.Inconclusive("lamport driver failed rc=%d:\n%s" % (rc, out[-3000:]))
    summary = json.loads(out.strip().splitlines()[-1])
    ctx.log("driver:", summary)
    rep = vlib.validate(ctx, "Trace_Lamport", TRACE_CFG, tp, timeout=3000)
    # a report is confirmed by running the same program again (all its schedules) and seeing the clause again
    lines = vlib.read_ndjson(tp)
    prog_of = {}
    for ln in lines:
        if ln["act"]["a"] == "reset":
            prog_of[ln["act"]["id"]] = ln["act"]["prog"]
    viol, per_key = [], {}
    for (tid, line, clauses, tags) in rep.monitors:
        key = ",".join(sorted(clauses)) + "|" + ",".join(sorted(tags))
        if per_key.get(key, 0) >= 2:      # two confirmed programs per distinct kind of report are enough
            continue
        per_key[key] = per_key.get(key, 0) + 1
        p2 = os.path.join(ctx.scratch, "reprog.ndjson")
        with open(p2, "w") as f:
            f.write(json.dumps({"id": 0, "prog": prog_of[tid]}) + "\n")
        t2 = os.path.join(ctx.scratch, "retrace.ndjson")
        rc, out = vlib.run_driver(ctx, binary, ["-in", p2, "-out", t2, "-max", str(MAX), "-maxpre", "3", "-budget", "600", "-random", "30"])
        rep2 = vlib.validate(ctx, "Trace_Lamport", TRACE_CFG, t2)
        again = [m for m in rep2.monitors if set(m[2]) & set(clauses)]
        if again:
            viol.append({"clauses": sorted(clauses), "tags": sorted(tags), "schedule": prog_of[tid], "prog": prog_of[tid]})
        else:
            ctx.log("report for program %s not reproduced; ignored" % prog_of[tid])
    new, known = vlib.classify(ctx.prop, viol)
    cov = {
        "states": mc.distinct if mc else 1, "transitions": mc.generated if mc else 1, "exhaustive": bool(mc),
        "model_constants": "MAX=%d (stands for 2^64-1), 2 threads x 2 ops over time/inc/wit{0,1,2,MAX-1,MAX}" % MAX,
        "traces_validated_against_impl": rep.traces, "trace_lines": rep.lines, "divergences": len(rep.diverged),
        "evaluations": summary["schedules"], "distinct_nontrivial": rep.traces,
        "programs": summary["programs"], "programs_with_complete_dfs": summary["dfs_complete"],
        "rule": "concurrent programs (2-3 threads, 1-2 calls each) run on the yield-instrumented real LamportClock under every "
                "schedule with <=2 (thorough 3) preemptions plus seeded random schedules; each schedule is one trace, validated "
                "step by step against Lamport.tla; distinct_nontrivial = number of schedules executed (each a distinct choice sequence)",
        "samples": [progs[0], progs[4] if len(progs) > 4 else progs[0]],
    }
    if ind:
        cov["unbounded_inductive_invariant"] = ind
    assume = ["yield points are inserted before every statement of lamport.go; atomic accesses are single statements",
              "model range 0..MAX is embedded into uint64 with MAX |-> 2^64-1"]
    vlib.finish(ctx, "model_checking", cov, assume, new, known)
