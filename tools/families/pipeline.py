"""C16: member events reach the application in order (spec/EventPipeline.tla)."""
PROPS = ["C16"]
CLAIMS = {
    'C16': (
        'model_checking',
        'TLC checks the C16 monitor (per member, what the application received is a subsequence of what the node emitted; when the pipeline '
        'has drained the last kind received equals the last kind emitted) exhaustively on spec/EventPipeline.tla, the pipeline as serf.Create '
        'wires it (handlers -> snapshot tee -> internal-query filter -> user coalescer -> member coalescer -> application) with every '
        'interleaving of the stage goroutines and flush points, with and without coalescing. TLC-simulated membership histories (the input '
        'sequences of SerfReplica, with seeded pauses of 0/8/70 ms around the 40/20 ms coalescing quantum) are run on a real Serf node with '
        'snapshot, internal-query filter and both coalescers enabled, and again without coalescing against a stalled application (channel of '
        'capacity 1 read only when the history is over, so every stage is backed up), and the membership handlers themselves are raced '
        '(yield-instrumented from the working tree: a memberlist notification and an intent about one member delivered by two threads '
        'under every schedule with at most two preemptions, budgeted); the emitted sequence is taken from the INFO lines serf logs synchronously '
        'inside its handlers, the received one from the application channel, and TLC judges both histories with the same monitor.',
        'Goroutine scheduling of the real pipeline is sampled (the exhaustive part is the model). The final-status clause is judged after the '
        'application channel was silent for ten coalescing periods. No stage of the pipeline drops events towards the application.',
        'TLA+ spec (EventPipeline) + TLC exhaustive check; TLC-simulated histories replayed on a real node; TLC evaluates the monitor on '
        'recorded emitted/received histories',
        '5 C16',
    ),
}
import json
import os
import random

import vlib
from families import replica


def execute(ctx, binary, nn, scheds, tag, slow=False, race=False):
    sp = os.path.join(ctx.scratch, "psched-%s.ndjson" % tag)
    tp = os.path.join(ctx.scratch, "ptrace-%s.ndjson" % tag)
    vlib.write_schedules(sp, scheds)
    rc, out = vlib.run_driver(ctx, binary, ["-in", sp, "-out", tp, "-nn", str(nn), "-pipeline", "-dir", ctx.scratch] + (["-slow"] if slow else []) + (["-race", "-racebudget", "60" if ctx.thorough() else "30"] if race else []), timeout=3000)
    if rc != 0:
        raise vlib.Inconclusive("pipeline driver failed rc=%d:\n%s" % (rc, out[-3000:]))
    return tp


def race_prog(lines, tid):
    """program index recorded in the reset line of trace tid"""
    for ln in lines:
        if ln["act"]["a"] == "reset" and ln["act"]["id"] == tid:
            return ln["act"].get("prog", 0)
    return 0


def run(ctx, replay=None):
    binary = replica.build(ctx)
    nn = 3
    mcs = []
    if replay:
        scheds = [json.load(open(replay))["schedule"]]
    else:
        for coal, emit in ((True, 4 if ctx.thorough() else 3), (False, 4 if ctx.thorough() else 3)):
            r = vlib.tlc(ctx, "EventPipeline", "CONSTANT NM = 2\nCONSTANT MaxEmit = %d\nCONSTANT Coalescing = %s\nINIT Init\nNEXT Next\nINVARIANT C16\n"
                         % (emit, "TRUE" if coal else "FALSE"), timeout=3000)
            if r.violated:
                raise vlib.Inconclusive("the pipeline model violates C16 -- spec error, no verdict")
            mcs.append(r)
        num, depth = (600, 60) if ctx.thorough() else (90, 50)
        _, scheds = vlib.simulate_schedules(ctx, "Gen_SerfReplica", replica.consts(nn, 4, depth) + "INIT GenInit\nNEXT GenNext\n", num, depth, timeout=3000)
        rng = random.Random(ctx.seed)
        for s in scheds:
            for st in s:
                st["p"] = rng.choice([0, 0, 0, 8, 8, 70])
    viol, seen = [], {}
    traces = lines_n = 0
    all_lines = []
    # two ways of running the same histories: (a) coalescers on, application reading all the time, seeded pauses;
    # (b) no coalescing and an application channel of capacity 1 that nobody reads until the history is over (a stalled
    # consumer: every stage of the pipeline is backed up and must still hand the events on in order)
    modes = [("a", False, scheds, True)]
    if not replay or json.load(open(replay)).get("slow"):
        sub = scheds if replay else scheds[:(200 if ctx.thorough() else 45)]
        modes = ([] if replay else modes) + [("s", True, sub, False)]
    # (c) handler races: the membership handlers are yield-instrumented and two inputs about ONE member (a memberlist
    # notification and an intent) are delivered by two threads under every schedule with <= 2 preemptions (budgeted); a
    # status change and its event must stay one step, whatever the interleaving
    if not replay or json.load(open(replay)).get("race"):
        def par(pre, a, b):
            return pre + [{"a": "par"}, a, b]
        J, L = {"a": "mljoin", "x": 1}, {"a": "mlleave", "x": 1}
        def msg(ty, lt, pr=0):
            return {"a": "msg", "ty": ty, "x": 1, "lt": lt, "prune": pr, "w": 0}
        races = [par([J], L, msg(2, 3)), par([J], L, msg(2, 3, 1)), par([J], L, msg(1, 3)), par([J, msg(2, 3)], L, msg(1, 5)),
                 par([J, L], J, msg(2, 3)), par([J, L], J, msg(2, 3, 1)), par([J, L], msg(2, 3), msg(1, 4)),
                 par([J, L, msg(2, 3)], J, msg(2, 5, 1)), par([], J, msg(2, 3)), par([], J, msg(1, 3))]
        if replay:
            races = scheds
            modes = []
        modes = modes + [("r", "race", races, False)]
    for tag, slow, ss, coal in modes:
        race = slow == "race"
        slow = slow is True
        tcfg = ("SPECIFICATION TraceSpec\nINVARIANT Done\nCONSTANT NM = %d\nCONSTANT MaxEmit = 100000\nCONSTANT Coalescing = %s\n"
                % (nn - 1, "TRUE" if coal else "FALSE"))
        binx = replica.build(ctx, instrumented=True) if race else binary
        tp = execute(ctx, binx, nn, ss, tag, slow=slow, race=race)
        rep = vlib.validate(ctx, "Trace_EventPipeline", tcfg, tp, timeout=3000)
        traces += rep.traces
        lines_n += rep.lines
        all_lines += vlib.read_ndjson(tp)
        for (tid, line, clauses, tags) in rep.monitors:
            key = tag + ",".join(sorted(clauses))
            if seen.get(key, 0) >= 2:
                continue
            seen[key] = seen.get(key, 0) + 1
            if race:   # a race trace is one schedule of a program: trace ids are consecutive per program
                ss_i = race_prog(vlib.read_ndjson(tp), tid)
            else:
                ss_i = tid
            t2 = execute(ctx, binx, nn, [ss[ss_i]], "re%s%d" % (tag, tid), slow=slow, race=race)
            rep2 = vlib.validate(ctx, "Trace_EventPipeline", tcfg, t2)
            again = sorted(set(c for m in rep2.monitors for c in m[2] if c in clauses))
            if again:
                viol.append({"clauses": again, "tags": [], "schedule": ss[ss_i], "slow": slow, "race": race})
            else:
                ctx.log("report %s on trace %s%d not reproduced; ignored" % (clauses, tag, tid))
    new, known = vlib.classify(ctx.prop, viol)
    lines = all_lines
    nem = sum(len(l["obs"]["em"]) for l in lines if l["act"]["a"] != "reset")
    nrc = sum(len(l["obs"]["rc"]) for l in lines if l["act"]["a"] != "reset")
    cov = {"states": sum(r.distinct for r in mcs) or 1, "transitions": sum(r.generated for r in mcs) or 1, "exhaustive": bool(mcs),
           "model_constants": "2 members, <= 3 (thorough 4) emitted events, all stage interleavings and flush points, coalescing on and off",
           "traces_validated_against_impl": traces, "trace_lines": lines_n,
           "evaluations": nem, "distinct_nontrivial": len(set(json.dumps(s) for s in scheds)),
           "events_emitted": nem, "events_received": nrc,
           "rule": "membership histories from TLC -simulate of SerfReplica with seeded pauses; evaluations = member events emitted by the real node "
                   "(each judged for order); distinct = distinct input sequences",
           "samples": [scheds[0][:8]] if scheds else []}
    vlib.finish(ctx, "model_checking", cov, ["emitted sequence read from serf's own INFO log lines"], new, known)
