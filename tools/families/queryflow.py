"""C07 (query reply routing), C22 (keyring persistence), C23 (cluster key operations): spec/QueryReply.tla, spec/KeyOps.tla."""
PROPS = ["C07", "C22", "C23"]
# id: (level, what the check establishes, trusted base / assumptions, technique, DESIGN.md section)
CLAIMS = {}
import json
import os
import random
import re

import vlib

# ----------------------------------------------------------------------------- builds

C07_SERF_FUNCS = ["Serf.Query", "Serf.registerQueryResponse", "Serf.handleQueryResponse", "Serf.handleQuery"]
C07_QUERY_FUNCS = ["QueryResponse.Close", "QueryResponse.Finished", "QueryResponse.sendResponse", "QueryResponse.sendAck"]


def build_c07(ctx, realtime=False):
    """Virtual-time build: yield-instrumented copies (cooperative locks) of serf/serf.go and serf/query.go of the
    current tree in which time.AfterFunc / time.Now are routed to the hooks of hooks/serf_queryflow.
    Real-time build: unchanged files + hooks."""
    hooks = [("serf", "serf_yield"), ("serf", "serf_queryflow")]
    if realtime:
        ov = vlib.overlay_for(ctx, hook_pkgs=hooks)
        return vlib.go_build(ctx, "queryflow", overlay=ov, name="bin-queryflow-rt")
    inst = vlib.instrument(ctx, [
        {"file": "serf/serf.go", "funcs": C07_SERF_FUNCS, "locks": True, "require": C07_SERF_FUNCS},
        {"file": "serf/query.go", "funcs": C07_QUERY_FUNCS, "locks": True, "require": C07_QUERY_FUNCS},
    ])
    n_after = _rewrite(inst["serf/serf.go"], r"\btime\.AfterFunc\(", "verifAfterFunc(")
    n_now = _rewrite(inst["serf/query.go"], r"\btime\.Now\(\)", "verifNow()")
    ctx.log("virtual time: %d time.AfterFunc in serf.go, %d time.Now in query.go rerouted" % (n_after, n_now))
    ov = vlib.overlay_for(ctx, hook_pkgs=hooks, replaced=inst)
    return vlib.go_build(ctx, "queryflow", overlay=ov, name="bin-queryflow-vt")


def _rewrite(path, pat, repl):
    with open(path) as f:
        txt = f.read()
    txt, n = re.subn(pat, repl, txt)
    with open(path, "w") as f:
        f.write(txt)
    return n



# ----------------------------------------------------------------------------- C07

C07_CONST = "CONSTANT NQ = 2\nCONSTANT NN = 2\nCONSTANT MaxLT = 3\nCONSTANT Cap = 1\n"
C07_TRACE_CFG = "SPECIFICATION TraceSpec\nINVARIANT Done\n" + C07_CONST


def c07_mc_cfg(nq, nn, replies, recvs, lts, ids, acks, inv="Props"):
    st = lambda xs: ", ".join(str(x) for x in xs)
    return ("CONSTANT NQ = %d\nCONSTANT NN = %d\nCONSTANT MaxLT = 3\nCONSTANT Cap = 1\nCONSTANT MaxReplies = %d\n"
            "CONSTANT MaxRecv = %d\nCONSTANT ReplyLTs = {%s}\nCONSTANT ReplyIds = {%s}\nCONSTANT ReplyAcks = {%s}\n"
            "INIT Init\nNEXT Next\nVIEW View\nINVARIANT %s\n" % (nq, nn, replies, recvs, st(lts), st(ids), st(acks), inv))


def op(kind, k=0, lt=0, idr=0, frm=0, ack=0, tag=0):
    return {"op": kind, "k": k, "lt": lt, "idr": idr, "from": frm, "ack": ack, "tag": tag}


def c07_must_programs():
    """Hand-written concurrent programs around the race of the property: a late reply vs the timeout vs a second
    Query() call; two concurrent Query() calls (same Lamport time) with replies to both."""
    q, rp, dl, tm, rc = (lambda k: op("query", k=k)), (lambda lt, i, f, a, t: op("reply", lt=lt, idr=i, frm=f, ack=a, tag=t)), \
        (lambda k: op("dl", k=k)), (lambda k: op("timer", k=k)), (lambda k: op("recv", k=k))
    return [{"pre": p["pre"], "threads": c07_order(p["threads"])} for p in [
        # late ack / response vs deadline + timer body vs a second Query()
        {"pre": [q(1), rp(1, 1, 1, 1, 1)], "threads": [[rp(1, 1, 2, 1, 2), rp(1, 1, 2, 0, 3)], [dl(1)], [tm(1)], [q(2)], [rc(1)]]},
        # two concurrent Query() calls and replies to both, under both possible times of the second one
        {"pre": [], "threads": [[q(1)], [q(2)], [rp(1, 1, 1, 1, 1), rp(1, 2, 1, 1, 2), rp(2, 2, 1, 0, 3)], [rc(1), rc(2)]]},
        # same, then both time out while replies keep coming
        {"pre": [], "threads": [[q(1)], [q(2)], [rp(1, 2, 1, 1, 1), rp(1, 1, 1, 1, 2), rp(1, 2, 2, 0, 3)], [dl(1), dl(2)], [tm(1)], [tm(2)]]},
        # duplicates (direct + relayed copy) racing the deadline and the close
        {"pre": [q(1), dl(1)], "threads": [[rp(1, 1, 1, 1, 1), rp(1, 1, 1, 1, 2)], [tm(1)], [rc(1), rc(1)]]},
        {"pre": [q(1)], "threads": [[rp(1, 1, 1, 0, 1), rp(1, 1, 1, 0, 2), rp(1, 0, 2, 0, 3)], [dl(1)], [tm(1)], [rc(1), rc(1)]]},
        # the second query registers while the first one's timer body runs
        {"pre": [q(1), rp(1, 1, 1, 1, 1), dl(1)], "threads": [[tm(1)], [q(2)], [rp(2, 2, 2, 1, 2), rp(1, 1, 2, 1, 3)], [rc(2)]]},
    ]]


def c07_split(sched, rng):
    """A TLC-generated sequential schedule -> a concurrent program: a sequential prefix, then the rest distributed
    over threads by role (each Query() call its own thread, the packet handler delivering the replies in order,
    the clock passing the deadlines in order, one thread per timer body, the application)."""
    ops = [st["o"] for st in sched]
    qpos = [i for i, o in enumerate(ops) if o["op"] == "query"]
    if not qpos:
        return None
    # cut before or after the first query, sometimes later
    choices = [qpos[0], qpos[0] + 1] + ([qpos[1]] if len(qpos) > 1 else []) + [rng.randrange(len(ops))]
    j = rng.choice(choices)
    pre, rest = ops[:j], ops[j:j + 9]
    th = {}
    for o in rest:
        role = {"query": "q%d" % o["k"], "reply": "r", "dl": "clk", "timer": "t%d" % o["k"], "recv": "app"}[o["op"]]
        th.setdefault(role, []).append(o)
    if len(th) < 2:
        return None
    # a timer body can only run after its deadline passed: keep programs in which that can happen
    done_dl = set(o["k"] for o in pre if o["op"] == "dl")
    all_dl = done_dl | set(o["k"] for o in rest if o["op"] == "dl")
    for o in rest:
        if o["op"] == "timer" and o["k"] not in all_dl:
            return None
    have_q = set(o["k"] for o in ops[:j + 9] if o["op"] == "query")
    for o in rest:
        if o["op"] in ("dl", "timer", "recv") and o["k"] not in have_q:
            return None
        if o["op"] == "reply" and o["idr"] != 0 and o["idr"] not in have_q:
            return None
    return {"pre": pre, "threads": c07_order([th[r] for r in sorted(th)])}


def c07_order(threads):
    """Threads in dependency order (Query() calls, clock, timer bodies, packet handler, application): the scheduler's
    default choice is the lowest eligible thread, so a thread waiting for another one's progress never starves it."""
    rank = {"query": 0, "dl": 1, "timer": 2, "reply": 3, "recv": 4}
    return sorted(threads, key=lambda t: rank[t[0]["op"]])


def c07_realtime(sched):
    """Real-time variant of a sequential schedule: 'dl k' directly followed by 'timer k' becomes 'expire k' (wait until
    the query has really timed out); schedules in which they are apart cannot be run against the real clock."""
    ops = [st["o"] for st in sched]
    out, i, n = [], 0, 0
    while i < len(ops):
        o = ops[i]
        if o["op"] == "dl":
            if i + 1 < len(ops) and ops[i + 1]["op"] == "timer" and ops[i + 1]["k"] == o["k"]:
                out.append(dict(o, op="expire"))
                i += 2
                n += 1
                continue
            return None
        if o["op"] == "timer":
            return None
        out.append(o)
        i += 1
    return {"pre": out, "threads": []} if n else None


def c07_drive(ctx, binary, progs, tag, extra=()):
    ip = os.path.join(ctx.scratch, "c07-%s-in.ndjson" % tag)
    tp = os.path.join(ctx.scratch, "c07-%s-trace.ndjson" % tag)
    with open(ip, "w") as f:
        for i, p in enumerate(progs):
            f.write(json.dumps({"id": i, "pre": p["pre"], "threads": p["threads"]}, separators=(",", ":")) + "\n")
    rc, out = vlib.run_driver(ctx, binary, ["-mode", "c07", "-in", ip, "-out", tp, "-scratch", ctx.scratch] + list(extra), timeout=3000)
    if rc != 0:
        raise vlib.Inconclusive("queryflow driver (c07 %s) failed rc=%d:\n%s" % (tag, rc, out[-3000:]))
    summary = json.loads(out.strip().splitlines()[-1])
    ctx.log("driver c07", tag, summary)
    if summary.get("crash_code_9"):
        raise vlib.Inconclusive("the driver's child crashed for an unknown reason:\n" + out[-3000:])
    return tp, summary


def c07_pids(trace_path):
    """trace id -> program index (reset lines carry pid)."""
    m = {}
    with open(trace_path) as f:
        for line in f:
            if line.startswith('{"act":{"a":"reset"'):
                a = json.loads(line)["act"]
                m[a["id"]] = a["pid"]
    return m


def run_c07(ctx, replay=None):
    thorough = ctx.thorough()
    rng = random.Random(ctx.seed)
    vt = build_c07(ctx, realtime=False)
    mc_states = mc_gen = 0
    mc_desc = []
    if replay:
        v = json.load(open(replay))
        seq_progs, conc_progs, rt_progs = [], [], []
        p = v["schedule"]
        (conc_progs if p.get("threads") else seq_progs).append(p)
        scheds = []
    else:
        # 1. exhaustive: all interleavings at lock-scope granularity
        cfgs = [("1 query, <=%d replies of every kind, 2 nodes" % (3 if thorough else 2),
                 c07_mc_cfg(1, 2, 3 if thorough else 2, 2, [1, 2], [0, 1], [0, 1])),
                ("2 concurrent queries, <=2 replies", c07_mc_cfg(2, 2 if thorough else 1, 2, 2 if thorough else 1, [1, 2],
                                                                  [0, 1, 2] if thorough else [1, 2], [0, 1] if thorough else [1]))]
        for desc, cfg in cfgs:
            r = vlib.tlc(ctx, "MC_QueryReply", cfg, timeout=3000)
            if r.violated:
                raise vlib.Inconclusive("the model violates its own C07 monitors (%s) -- spec error, no verdict" % desc)
            mc_states += r.distinct
            mc_gen += r.generated
            mc_desc.append("%s: %d distinct" % (desc, r.distinct))
        # the situation the report discusses (two Query() calls sharing a Lamport time) is explored by the model
        r = vlib.tlc(ctx, "MC_QueryReply", c07_mc_cfg(2, 1, 1, 1, [1], [1, 2], [1], inv="NoSameLT"), timeout=3000)
        if not r.violated:
            raise vlib.Inconclusive("two queries with the same Lamport time are not reachable in the model")
        # 2. TLC-generated sequential schedules
        num, depth = (1200, 70) if thorough else (220, 60)
        _, scheds = vlib.simulate_schedules(ctx, "Gen_QueryReply", C07_CONST + "CONSTANT MaxSteps = 30\nINIT GenInit\nNEXT GenNext\n",
                                            num, depth, timeout=3000)
        seq_progs = [{"pre": [st["o"] for st in s], "threads": []} for s in scheds]
        conc_progs = c07_must_programs()
        want = 60 if thorough else 14
        for s in scheds:
            if len(conc_progs) >= want + 6:
                break
            p = c07_split(s, rng)
            if p:
                conc_progs.append(p)
        rt_progs = [p for p in (c07_realtime(s) for s in scheds) if p][:(150 if thorough else 25)]
    runs = []   # (tag, binary, programs, extra args)
    if seq_progs:
        runs.append(("seq", vt, seq_progs, []))
    if conc_progs:
        runs.append(("conc", vt, conc_progs, ["-maxpre", "2", "-budget", "400" if thorough else "60", "-random", "60" if thorough else "12"]))
    if rt_progs:
        runs.append(("rt", build_c07(ctx, realtime=True), rt_progs, ["-realtime"]))
    # every run writes its own trace (ids offset by run); one TLC validation over the concatenation
    viol, seen, summaries, cov_sched = [], {}, {}, 0
    allp = os.path.join(ctx.scratch, "c07-all-trace.ndjson")
    with open(allp, "w") as out:
        for i, (tag, binary, progs, extra) in enumerate(runs):
            tp, summ = c07_drive(ctx, binary, progs, tag, extra + ["-idbase", str(i * 1000000)])
            summaries[tag] = summ
            cov_sched += summ.get("schedules", 0)
            with open(tp) as f:
                for line in f:
                    out.write(line)
    rep = vlib.validate(ctx, "Trace_QueryReply", C07_TRACE_CFG, allp, timeout=3000)
    cov_tr, cov_lines, cov_div = rep.traces, rep.lines, len(rep.diverged)
    if rep.diverged:
        ctx.log("divergences: %s" % rep.diverged[:8])
    pid = c07_pids(allp)
    for (tid, line, clauses, tags) in rep.monitors:
        tag, binary, progs, extra = runs[tid // 1000000]
        key = tag + "|" + ",".join(sorted(clauses)) + "|" + ",".join(sorted(tags))
        if seen.get(key, 0) >= 2:
            continue
        seen[key] = seen.get(key, 0) + 1
        prog = progs[pid[tid]]
        # second execution from scratch of the same program (same enumeration of schedules)
        tp2, _ = c07_drive(ctx, binary, [prog], "re-%s-%d" % (tag, tid), extra)
        rep2 = vlib.validate(ctx, "Trace_QueryReply", C07_TRACE_CFG, tp2)
        again = sorted(set(c for m in rep2.monitors for c in m[2] if c in clauses))
        if again:
            viol.append({"clauses": again, "tags": sorted(tags), "schedule": prog, "mode": tag})
        else:
            ctx.log("report %s (%s, trace %d) not reproduced; ignored" % (clauses, tag, tid))
    new, known = vlib.classify(ctx.prop, viol)
    kinds = {}
    for p in seq_progs:
        for o in p["pre"]:
            kinds[o["op"]] = kinds.get(o["op"], 0) + 1
    cov = {
        "states": mc_states or 1, "transitions": mc_gen or 1, "exhaustive": bool(mc_states),
        "model_constants": "; ".join(mc_desc) + "; times 1..2 for replies, ids {none, q1, q2}, channel capacity 1",
        "traces_validated_against_impl": cov_tr, "trace_lines": cov_lines, "divergences": cov_div,
        "evaluations": cov_sched, "distinct_nontrivial": cov_tr,
        "sequential_schedules": len(seq_progs), "concurrent_programs": len(conc_progs), "realtime_schedules": len(rt_progs),
        "driver": summaries, "ops_by_kind": kinds,
        "rule": "TLC -simulate sequences of whole operations (Query() calls with RequestAck, reply deliveries through NotifyMsg in wire "
                "format with matching / other times and ids, duplicates, deadline, timer body, application reads) executed on a real quiet "
                "node in the virtual-time build; the same sequences split into threads (plus hand-written race programs) run under every "
                "schedule with <=2 preemptions (budgeted) plus seeded random schedules on the yield-instrumented code; a subset replayed "
                "with the real clock and real timers; every line validated by TLC (subset construction) and judged by the C07 monitors",
        "samples": [seq_progs[0]["pre"][:8]] if seq_progs else [],
    }
    assume = ["replies are delivered by one thread at a time (memberlist's packet handler), concurrently with Query() calls, timer bodies and the application",
              "distinct Query() calls draw distinct random ids (checked at run time)",
              "virtual time: time.Now in query.go and time.AfterFunc in registerQueryResponse are routed to harness hooks in the instrumented copies; "
              "the real-time subset uses the unchanged files",
              "channel capacity is memberlist.NumMembers() = 1 on the single quiet node (checked at run time)"]
    vlib.finish(ctx, "model_checking", cov, assume, new, known)


def run(ctx, replay=None):
    if ctx.prop == "C07":
        return run_c07(ctx, replay)
    raise vlib.Inconclusive("not implemented yet")
