"""C07 (query reply routing), C22 (keyring persistence), C23 (cluster key operations): spec/QueryReply.tla, spec/KeyOps.tla."""
PROPS = ["C07", "C22", "C23"]
# id: (level, what the check establishes, trusted base / assumptions, technique, DESIGN.md section)
CLAIMS = {
    'C07': (
        'model_checking',
        'TLC checks the C07 monitors (per query and node at most one ack and one response on AckCh()/ResponseCh(); only replies whose LTime and ID '
        'equal the query\'s; no reply whose handling began after the deadline is delivered; channels never seen closed before the deadline, both '
        'seen closed after the timer body, no close-of-closed / send-on-closed panic) exhaustively on spec/QueryReply.tla: every interleaving, at '
        'lock-scope granularity, of two concurrent Query() calls, their deadlines and timer bodies, a packet handler delivering freely chosen '
        'replies (matching / other times and ids, duplicates, acks and responses) and the application reading. Binding: TLC-simulated sequences of '
        'whole operations are executed on a real quiet Serf node (Query() with RequestAck, replies in wire format through NotifyMsg) built from the '
        'yield-instrumented working tree with virtual time; the same sequences split into threads plus hand-written race programs (late reply vs '
        'timeout vs second Query(), two Query() calls sharing a Lamport time) run under schedules enumerated by thread-priority orders x change '
        'points (PCT scheme) and seeded random schedules of a cooperative scheduler; a subset runs on the unchanged files with the real clock and real timers; TLC validates '
        'every trace line against the spec (subset construction over unlogged locals) and evaluates the monitors on the observed channels.',
        'Trusts TLC, the yield instrumenter (yields before every statement, cooperative Lock/RLock) and the textual rerouting of time.Now (query.go) '
        'and time.AfterFunc (registerQueryResponse) to harness hooks in the instrumented copies, the overlay accessors reading queryResponse and '
        'QueryResponse fields, the wire-format mirror of messageQueryResponse. Replies are handled by one thread at a time (memberlist packet '
        'handler); distinct queries draw distinct random ids; channel capacity 1 (single quiet node).',
        'TLA+ spec + TLC exhaustive check of the monitors; TLC-simulated operation sequences replayed on the real node; systematic schedule '
        'enumeration of the instrumented real code; TLC trace validation with property monitors on observed state',
        '5 C07',
    ),
    'C22': (
        'model_checking',
        'TLC checks the C22 monitors (after every request the keyring file, loaded through the agent\'s own loader, yields exactly the live key set '
        'with the same primary key; a rejected request changes neither keyring nor file) exhaustively on the keyring part of spec/KeyOps.tla (all '
        'request sequences up to the bound over the interleaved read-only list-keys query and install/use/remove x {valid keys of 16, 24 and 32 bytes, two wrong lengths, undecodable and empty request, non-base64 API '
        'argument} from three initial keyrings) and on every step of TLC-simulated request sequences plus all request pairs executed on a real '
        'quiet node with Keyring + KeyringFile: the real internal queries are delivered in wire format through NotifyMsg, a step ends when its '
        'reply packet is captured on the transport, the file is reloaded with agent.Create(KeyringFile), and TLC validates each observation '
        'against the model.',
        'Trusts TLC, the in-process transport capture, the wire-format mirror of the query / key request messages. Requests are handled one after '
        'another; file writes succeed. The reload through the agent loader is an observed step (ok/err, keys, primary), never a driver assertion.',
        'TLA+ spec + TLC exhaustive check; TLC-generated request sequences replayed on a real node; TLC trace validation with property monitors',
        '5 C22',
    ),
    'C23': (
        'model_checking',
        'TLC enumerates from spec/KeyOps.tla every reply multiset of size <=4 over {ok with 4 key sets, ok+message, failed with and without a message, wrong type byte, '
        'undecodable, empty payload} x 1..4 members x list/install/use/remove and, for truncation, key counts x key lengths 16/24/32 bytes x every '
        'size limit within 1 of a size the truncation loop compares with (exact msgpack sizes); the model passes the C23 monitors on all of them. '
        'Binding: each input is executed for real -- KeyManager operations on the first node of a quiet cluster with that many memberlist members, '
        'replies injected for the query\'s (LTime, ID) read off the broadcast queue; real _serf_list-keys queries to a node holding N keys under '
        'the given QueryResponseSizeLimit, reply captured on the transport -- and TLC compares every observation with the model (KeyResponse '
        'fields, error flag; encoded size, keys listed, the "i of n" note) and evaluates the monitors (NumResp, NumErr = failed + undecodable, '
        'per-key and per-primary-key counts, error iff failure or fewer replies than members; size <= limit when one key fits, prefix, note).',
        'Trusts TLC, the transport capture and broadcast-queue drain, the wire-format mirrors. At most one reply per member; counts filed under '
        'the empty key name are not judged; query LTime < 128, 65536 <= ID < 2^32 and a 6-character node name fix the reply envelope size; quick '
        'tier executes a seeded sample of the aggregation inputs and 12 key counts.',
        'TLA+ definitions + TLC enumeration of the input space and model check of the monitors; every input executed on real nodes; TLC trace '
        'validation (exact conformance) with property monitors',
        '5 C23',
    ),
}
import json
import os
import random
import re

import vlib

# ----------------------------------------------------------------------------- builds

C07_SERF_FUNCS = ["Serf.Query", "Serf.registerQueryResponse", "Serf.handleQueryResponse", "Serf.handleQuery"]
C07_QUERY_FUNCS = ["QueryResponse.Close", "QueryResponse.Finished", "QueryResponse.sendResponse", "QueryResponse.sendAck"]


def build_c07(ctx, realtime=False):
    """Virtual-time build: yield-instrumented copies (cooperative locks) of serf/serf.go and serf/query.go of the
    current tree in which time.AfterFunc / time.Now are routed to the hooks of hooks/serf_queryflow.
    Real-time build: unchanged files + hooks."""
    hooks = [("serf", "serf_yield"), ("serf", "serf_queryflow")]
    if realtime:
        ov = vlib.overlay_for(ctx, hook_pkgs=hooks)
        return vlib.go_build(ctx, "queryflow", overlay=ov, name="bin-queryflow-rt")
    inst = vlib.instrument(ctx, [
        {"file": "serf/serf.go", "funcs": C07_SERF_FUNCS, "locks": True, "require": C07_SERF_FUNCS},
        {"file": "serf/query.go", "funcs": C07_QUERY_FUNCS, "locks": True, "require": C07_QUERY_FUNCS},
    ])
    n_after = _rewrite(inst["serf/serf.go"], r"\btime\.AfterFunc\(", "verifAfterFunc(")
    n_now = _rewrite(inst["serf/query.go"], r"\btime\.Now\(\)", "verifNow()")
    ctx.log("virtual time: %d time.AfterFunc in serf.go, %d time.Now in query.go rerouted" % (n_after, n_now))
    ov = vlib.overlay_for(ctx, hook_pkgs=hooks, replaced=inst)
    return vlib.go_build(ctx, "queryflow", overlay=ov, name="bin-queryflow-vt")


def _rewrite(path, pat, repl):
    with open(path) as f:
        txt = f.read()
    txt, n = re.subn(pat, repl, txt)
    with open(path, "w") as f:
        f.write(txt)
    return n



# ----------------------------------------------------------------------------- C07

C07_CONST = "CONSTANT NQ = 2\nCONSTANT NN = 2\nCONSTANT MaxLT = 3\nCONSTANT Cap = 1\n"
C07_TRACE_CFG = "SPECIFICATION TraceSpec\nINVARIANT Done\n" + C07_CONST


def c07_mc_cfg(nq, nn, replies, recvs, lts, ids, acks, inv="Props"):
    st = lambda xs: ", ".join(str(x) for x in xs)
    return ("CONSTANT NQ = %d\nCONSTANT NN = %d\nCONSTANT MaxLT = 3\nCONSTANT Cap = 1\nCONSTANT MaxReplies = %d\n"
            "CONSTANT MaxRecv = %d\nCONSTANT ReplyLTs = {%s}\nCONSTANT ReplyIds = {%s}\nCONSTANT ReplyAcks = {%s}\n"
            "INIT Init\nNEXT Next\nVIEW View\nINVARIANT %s\n" % (nq, nn, replies, recvs, st(lts), st(ids), st(acks), inv))


def op(kind, k=0, lt=0, idr=0, frm=0, ack=0, tag=0):
    return {"op": kind, "k": k, "lt": lt, "idr": idr, "from": frm, "ack": ack, "tag": tag}


def c07_must_programs():
    """Hand-written concurrent programs around the race of the property: a late reply vs the timeout vs a second
    Query() call; two concurrent Query() calls (same Lamport time) with replies to both."""
    q, rp, dl, tm, rc = (lambda k: op("query", k=k)), (lambda lt, i, f, a, t: op("reply", lt=lt, idr=i, frm=f, ack=a, tag=t)), \
        (lambda k: op("dl", k=k)), (lambda k: op("timer", k=k)), (lambda k: op("recv", k=k))
    return [{"pre": p["pre"], "threads": c07_order(p["threads"])} for p in [
        # late ack / response vs deadline + timer body vs a second Query()
        {"pre": [q(1), rp(1, 1, 1, 1, 1)], "threads": [[rp(1, 1, 2, 1, 2), rp(1, 1, 2, 0, 3)], [dl(1)], [tm(1)], [q(2)], [rc(1)]]},
        # two concurrent Query() calls and replies to both, under both possible times of the second one
        {"pre": [], "threads": [[q(1)], [q(2)], [rp(1, 1, 1, 1, 1), rp(1, 2, 1, 1, 2), rp(2, 2, 1, 0, 3)], [rc(1), rc(2)]]},
        # same, then both time out while replies keep coming
        {"pre": [], "threads": [[q(1)], [q(2)], [rp(1, 2, 1, 1, 1), rp(1, 1, 1, 1, 2), rp(1, 2, 2, 0, 3)], [dl(1), dl(2)], [tm(1)], [tm(2)]]},
        # duplicates (direct + relayed copy) racing the deadline and the close
        {"pre": [q(1), dl(1)], "threads": [[rp(1, 1, 1, 1, 1), rp(1, 1, 1, 1, 2)], [tm(1)], [rc(1), rc(1)]]},
        {"pre": [q(1)], "threads": [[rp(1, 1, 1, 0, 1), rp(1, 1, 1, 0, 2), rp(1, 0, 2, 0, 3)], [dl(1)], [tm(1)], [rc(1), rc(1)]]},
        # the second query registers while the first one's timer body runs
        {"pre": [q(1), rp(1, 1, 1, 1, 1), dl(1)], "threads": [[tm(1)], [q(2)], [rp(2, 2, 2, 1, 2), rp(1, 1, 2, 1, 3)], [rc(2)]]},
    ]]


def c07_split(sched, rng):
    """A TLC-generated sequential schedule -> a concurrent program: a sequential prefix, then the rest distributed
    over threads by role (each Query() call its own thread, the packet handler delivering the replies in order,
    the clock passing the deadlines in order, one thread per timer body, the application)."""
    ops = [st["o"] for st in sched]
    qpos = [i for i, o in enumerate(ops) if o["op"] == "query"]
    if not qpos:
        return None
    # cut before or after the first query, sometimes later
    choices = [qpos[0], qpos[0] + 1] + ([qpos[1]] if len(qpos) > 1 else []) + [rng.randrange(len(ops))]
    j = rng.choice(choices)
    pre, rest = ops[:j], ops[j:j + 9]
    th = {}
    for o in rest:
        role = {"query": "q%d" % o["k"], "reply": "r", "dl": "clk", "timer": "t%d" % o["k"], "recv": "app"}[o["op"]]
        th.setdefault(role, []).append(o)
    if len(th) < 2:
        return None
    # a timer body can only run after its deadline passed: keep programs in which that can happen
    done_dl = set(o["k"] for o in pre if o["op"] == "dl")
    all_dl = done_dl | set(o["k"] for o in rest if o["op"] == "dl")
    for o in rest:
        if o["op"] == "timer" and o["k"] not in all_dl:
            return None
    have_q = set(o["k"] for o in ops[:j + 9] if o["op"] == "query")
    for o in rest:
        if o["op"] in ("dl", "timer", "recv") and o["k"] not in have_q:
            return None
        if o["op"] == "reply" and o["idr"] != 0 and o["idr"] not in have_q:
            return None
    return {"pre": pre, "threads": c07_order([th[r] for r in sorted(th)])}


def c07_order(threads):
    """Threads in dependency order (Query() calls, clock, timer bodies, packet handler, application): the scheduler's
    default choice is the lowest eligible thread, so a thread waiting for another one's progress never starves it."""
    rank = {"query": 0, "dl": 1, "timer": 2, "reply": 3, "recv": 4}
    return sorted(threads, key=lambda t: rank[t[0]["op"]])


def c07_realtime(sched):
    """Real-time variant of a sequential schedule: 'dl k' directly followed by 'timer k' becomes 'expire k' (wait until
    the query has really timed out); schedules in which they are apart cannot be run against the real clock."""
    ops = [st["o"] for st in sched]
    out, i, n = [], 0, 0
    while i < len(ops):
        o = ops[i]
        if o["op"] == "dl":
            if i + 1 < len(ops) and ops[i + 1]["op"] == "timer" and ops[i + 1]["k"] == o["k"]:
                out.append(dict(o, op="expire"))
                i += 2
                n += 1
                continue
            return None
        if o["op"] == "timer":
            return None
        out.append(o)
        i += 1
    return {"pre": out, "threads": []} if n else None


def c07_drive(ctx, binary, progs, tag, extra=()):
    ip = os.path.join(ctx.scratch, "c07-%s-in.ndjson" % tag)
    tp = os.path.join(ctx.scratch, "c07-%s-trace.ndjson" % tag)
    with open(ip, "w") as f:
        for i, p in enumerate(progs):
            f.write(json.dumps({"id": i, "pre": p["pre"], "threads": p["threads"], "budget": p.get("budget", 0)}, separators=(",", ":")) + "\n")
    rc, out = vlib.run_driver(ctx, binary, ["-mode", "c07", "-in", ip, "-out", tp, "-scratch", ctx.scratch] + list(extra), timeout=3000)
    if rc != 0:
        raise vlib.Inconclusive("queryflow driver (c07 %s) failed rc=%d:\n%s" % (tag, rc, out[-3000:]))
    summary = json.loads(out.strip().splitlines()[-1])
    ctx.log("driver c07", tag, summary)
    if summary.get("crash_code_9"):
        raise vlib.Inconclusive("the driver's child crashed for an unknown reason:\n" + out[-3000:])
    return tp, summary


def c07_pids(trace_path):
    """trace id -> program index (reset lines carry pid)."""
    m = {}
    with open(trace_path) as f:
        for line in f:
            if line.startswith('{"act":{"a":"reset"'):
                a = json.loads(line)["act"]
                m[a["id"]] = a["pid"]
    return m


def run_c07(ctx, replay=None):
    thorough = ctx.thorough()
    rng = random.Random(ctx.seed)
    vt = build_c07(ctx, realtime=False)
    mc_states = mc_gen = 0
    mc_desc = []
    if replay:
        v = json.load(open(replay))
        seq_progs, conc_progs, rt_progs = [], [], []
        p = v["schedule"]
        (rt_progs if v.get("mode") == "rt" else conc_progs if p.get("threads") else seq_progs).append(p)
        scheds = []
    else:
        # 1. exhaustive: all interleavings at lock-scope granularity
        cfgs = [("1 query, <=%d replies of every kind, 2 nodes" % (3 if thorough else 2),
                 c07_mc_cfg(1, 2, 3 if thorough else 2, 2, [1, 2], [0, 1], [0, 1])),
                ("2 concurrent queries, <=2 acks", c07_mc_cfg(2, 1, 2, 2 if thorough else 1, [1, 2],
                                                               [0, 1, 2] if thorough else [1, 2], [1]))]
        for desc, cfg in cfgs:
            r = vlib.tlc(ctx, "MC_QueryReply", cfg, timeout=3000)
            if r.violated:
                raise vlib.Inconclusive("the model violates its own C07 monitors (%s) -- spec error, no verdict" % desc)
            mc_states += r.distinct
            mc_gen += r.generated
            mc_desc.append("%s: %d distinct" % (desc, r.distinct))
        # the situation the report discusses is explored by the model: two Query() calls share a Lamport time, the second
        # registration replaces the first, a reply addressed to the first (still open) query is discarded
        r = vlib.tlc(ctx, "MC_QueryReply", c07_mc_cfg(2, 1, 1, 1, [1], [1, 2], [1], inv="NoDiscard"), timeout=3000)
        if not r.violated:
            raise vlib.Inconclusive("two queries with the same Lamport time are not reachable in the model")
        # 2. TLC-generated sequential schedules
        num, depth = (1200, 70) if thorough else (220, 60)
        _, scheds = vlib.simulate_schedules(ctx, "Gen_QueryReply", C07_CONST + "CONSTANT MaxSteps = 30\nINIT GenInit\nNEXT GenNext\n",
                                            num, depth, timeout=3000)
        seq_progs = [{"pre": [st["o"] for st in s], "threads": []} for s in scheds]
        conc_progs = c07_must_programs()
        for p in conc_progs:
            p["budget"] = 500 if thorough else 150
        want = 40 if thorough else 14
        for s in scheds:
            if len(conc_progs) >= want + 6:
                break
            p = c07_split(s, rng)
            if p:
                p["budget"] = 120 if thorough else 40
                conc_progs.append(p)
        rt_progs = [p for p in (c07_realtime(s) for s in scheds) if p][:(150 if thorough else 25)]
    runs = []   # (tag, binary, programs, extra args)
    if seq_progs:
        runs.append(("seq", vt, seq_progs, []))
    if conc_progs:
        runs.append(("conc", vt, conc_progs, ["-budget", "150", "-random", "30" if thorough else "10"]))
    if rt_progs:
        runs.append(("rt", build_c07(ctx, realtime=True), rt_progs, ["-realtime"]))
    # every run writes its own trace (ids offset by run); one TLC validation over the concatenation
    viol, seen, summaries, cov_sched, confirmed = [], {}, {}, 0, set()
    gave_up = None
    allp = os.path.join(ctx.scratch, "c07-all-trace.ndjson")
    with open(allp, "w") as out:
        for i, (tag, binary, progs, extra) in enumerate(runs):
            try:
                tp, summ = c07_drive(ctx, binary, progs, tag, extra + ["-idbase", str(i * 1000000)])
            except vlib.Inconclusive as e:
                # a driver that gives up (e.g. the real-time replay refusing to go on) must not keep the traces of the
                # other runs from being judged: remember it, no verdict from that run
                if tag != "rt":
                    raise
                gave_up = str(e)
                ctx.log("run %s gave up: %s" % (tag, gave_up.splitlines()[-1] if gave_up else ""))
                continue
            summaries[tag] = summ
            cov_sched += summ.get("schedules", 0)
            with open(tp) as f:
                for line in f:
                    out.write(line)
    rep = vlib.validate(ctx, "Trace_QueryReply", C07_TRACE_CFG, allp, timeout=3000)
    cov_tr, cov_lines, cov_div = rep.traces, rep.lines, len(rep.diverged)
    if rep.diverged:
        ctx.log("divergences: %s" % rep.diverged[:8])
    pid = c07_pids(allp)
    info = {}
    for body in vlib.printed(rep.tlc.out, "INFO"):
        for t in re.findall(r'"([^"]*)"', vlib.split_top(body)[1]):
            info[t] = info.get(t, 0) + 1
    for (tid, line, clauses, tags) in rep.monitors:
        tag, binary, progs, extra = runs[tid // 1000000]
        key = ",".join(sorted(clauses)) + "|" + ",".join(sorted(t for t in tags if t != "addressed_reply_discarded"))
        if seen.get(key, 0) >= 2 or key in confirmed:      # one confirmed report per kind is enough, two attempts
            continue
        seen[key] = seen.get(key, 0) + 1
        prog = progs[pid[tid]]
        # second execution from scratch of the same program (same enumeration of schedules)
        tp2, _ = c07_drive(ctx, binary, [prog], "re-%s-%d" % (tag, tid), extra)
        rep2 = vlib.validate(ctx, "Trace_QueryReply", C07_TRACE_CFG, tp2)
        again = sorted(set(c for m in rep2.monitors for c in m[2] if c in clauses))
        if again:
            confirmed.add(key)
            viol.append({"clauses": again, "tags": sorted(tags), "schedule": prog, "mode": tag})
        else:
            ctx.log("report %s (%s, trace %d) not reproduced; ignored" % (clauses, tag, tid))
    new, known = vlib.classify(ctx.prop, viol)
    if gave_up and not new:
        raise vlib.Inconclusive(gave_up)
    kinds = {}
    for p in seq_progs:
        for o in p["pre"]:
            kinds[o["op"]] = kinds.get(o["op"], 0) + 1
    cov = {
        "states": mc_states or 1, "transitions": mc_gen or 1, "exhaustive": bool(mc_states),
        "model_constants": "; ".join(mc_desc) + "; times 1..2 for replies, ids {none, q1, q2}, channel capacity 1",
        "traces_validated_against_impl": cov_tr, "trace_lines": cov_lines, "divergences": cov_div,
        "evaluations": cov_sched, "distinct_nontrivial": cov_tr,
        "sequential_schedules": len(seq_progs), "concurrent_programs": len(conc_progs), "realtime_schedules": len(rt_progs),
        "driver": summaries, "ops_by_kind": kinds, "traces_by_situation": info,
        "rule": "TLC -simulate sequences of whole operations (Query() calls with RequestAck, reply deliveries through NotifyMsg in wire "
                "format with matching / other times and ids, duplicates, deadline, timer body, application reads) executed on a real quiet "
                "node in the virtual-time build; the same sequences split into threads (plus hand-written race programs) run under "
                "schedules enumerated by thread priority orders x change points plus seeded random schedules on the yield-instrumented code; a subset replayed "
                "with the real clock and real timers; every line validated by TLC (subset construction) and judged by the C07 monitors",
        "samples": [seq_progs[0]["pre"][:8]] if seq_progs else [],
    }
    assume = ["replies are delivered by one thread at a time (memberlist's packet handler), concurrently with Query() calls, timer bodies and the application",
              "distinct Query() calls draw distinct random ids (checked at run time)",
              "virtual time: time.Now in query.go and time.AfterFunc in registerQueryResponse are routed to harness hooks in the instrumented copies; "
              "the real-time subset uses the unchanged files",
              "channel capacity is memberlist.NumMembers() = 1 on the single quiet node (checked at run time)"]
    vlib.finish(ctx, "model_checking", cov, assume, new, known)


# ----------------------------------------------------------------------------- C22 / C23

def build_keys(ctx):
    """Unchanged files of the current tree + the accessor hooks."""
    ov = vlib.overlay_for(ctx, hook_pkgs=[("serf", "serf_yield"), ("serf", "serf_queryflow")])
    return vlib.go_build(ctx, "queryflow", overlay=ov, name="bin-queryflow-rt")


def key_cfg(mode, max_steps=5, ns=(0, 1), emit=False):
    return ("CONSTANT MaxSteps = %d\nCONSTANT MaxReplies = 4\nCONSTANT MaxMembers = 4\nCONSTANT TruncNs = {%s}\n"
            "CONSTANT TruncKCs = {24, 32, 44}\nCONSTANT TruncNL = 6\nINIT %sInit\nNEXT %sNext\nINVARIANT Props\n%s"
            % (max_steps, ", ".join(str(n) for n in ns), mode, mode, "ACTION_CONSTRAINT Emit\n" if emit else ""))


KEY_TRACE_CFG = "SPECIFICATION TraceSpec\nINVARIANT Done\n"


def key_drive(ctx, binary, mode, inputs, tag):
    ip = os.path.join(ctx.scratch, "%s-%s-in.ndjson" % (mode, tag))
    tp = os.path.join(ctx.scratch, "%s-%s-trace.ndjson" % (mode, tag))
    with open(ip, "w") as f:
        for x in inputs:
            f.write(json.dumps(x, separators=(",", ":")) + "\n")
    rc, out = vlib.run_driver(ctx, binary, ["-mode", mode, "-in", ip, "-out", tp, "-scratch", ctx.scratch], timeout=3000)
    if rc != 0:
        raise vlib.Inconclusive("queryflow driver (%s %s) failed rc=%d:\n%s" % (mode, tag, rc, out[-3000:]))
    summary = json.loads(out.strip().splitlines()[-1])
    ctx.log("driver", mode, tag, summary)
    if summary.get("crashes"):
        raise vlib.Inconclusive("the node under test crashed in mode %s (not a C22/C23 verdict):\n%s" % (mode, out[-3000:]))
    return tp, summary


def key_confirm(ctx, binary, rep, inputs_of, prefix):
    """Monitor reports -> violations confirmed by a second execution from scratch.  inputs_of(trace id) = (mode, input)."""
    viol, seen, confirmed = [], {}, set()
    for (tid, line, clauses, tags) in rep.monitors:
        mine = sorted(c for c in clauses if c.startswith(prefix))
        if not mine:
            continue
        key = ",".join(mine)
        if seen.get(key, 0) >= 2 or key in confirmed:
            continue
        seen[key] = seen.get(key, 0) + 1
        mode, inp = inputs_of(tid)
        tp2, _ = key_drive(ctx, binary, mode, [inp], "re%d" % tid)
        rep2 = vlib.validate(ctx, "Trace_KeyOps", KEY_TRACE_CFG, tp2)
        again = sorted(set(c for m in rep2.monitors for c in m[2] if c in mine))
        if again:
            confirmed.add(key)
            viol.append({"clauses": again, "tags": [], "schedule": inp, "mode": mode})
        else:
            ctx.log("report %s on input %d not reproduced; ignored" % (mine, tid))
    return viol


def run_c22(ctx, replay=None):
    thorough = ctx.thorough()
    rng = random.Random(ctx.seed)
    binary = build_keys(ctx)
    mc = None
    if replay:
        inputs = [json.load(open(replay))["schedule"]]
        inputs[0]["id"] = 0
    else:
        mc = vlib.tlc(ctx, "Gen_KeyOps", key_cfg("Ring", max_steps=6 if thorough else 5), timeout=3000)
        if mc.violated:
            raise vlib.Inconclusive("the keyring model violates its own C22 monitors -- spec error, no verdict")
        num, depth = (2500, 6) if thorough else (260, 6)
        _, scheds = vlib.simulate_schedules(ctx, "Gen_KeyOps", key_cfg("Ring", max_steps=6).replace("INVARIANT Props\n", ""),
                                            num, depth + 1, timeout=3000)
        inputs = []
        for s in scheds:
            if s and s[0]["a"] == "kinit" and len(s) > 1:
                inputs.append({"init": s[0]["init"], "steps": s[1:]})
        # plus every pair of requests from every initial keyring (quick: a seeded third of them)
        ops = [{"a": "kop", "op": o, "k": k} for o in ("install", "use", "remove") for k in range(1, 9)] + [{"a": "kop", "op": "list", "k": 0}]
        pairs = [{"init": init, "steps": [a, b]} for init in ([1], [2, 1], [1, 2, 3], [3, 1]) for a in ops for b in ops]
        if thorough:
            inputs += pairs
        else:      # every pair with a list-keys query in it, a seeded third of the others
            with_list = [p for p in pairs if any(st["op"] == "list" for st in p["steps"])]
            rest = [p for p in pairs if not any(st["op"] == "list" for st in p["steps"])]
            inputs += with_list + rng.sample(rest, len(rest) // 3)
        for i, x in enumerate(inputs):
            x["id"] = i
    tp, summ = key_drive(ctx, binary, "keyring", inputs, "a")
    rep = vlib.validate(ctx, "Trace_KeyOps", KEY_TRACE_CFG, tp, timeout=3000)
    viol = key_confirm(ctx, binary, rep, lambda tid: ("keyring", dict(inputs[tid], id=0)), "C22_")
    new, known = vlib.classify(ctx.prop, viol)
    kinds = {}
    for x in inputs:
        for st in x["steps"]:
            key = "%s:%d" % (st["op"], st["k"])
            kinds[key] = kinds.get(key, 0) + 1
    cov = {
        "states": mc.distinct if mc else 1, "transitions": mc.generated if mc else 1, "exhaustive": bool(mc),
        "model_constants": "keys {k1 16B, k2 24B, k3 32B} + {15B, 33B, undecodable request, non-base64 API argument, empty request payload}; initial rings "
                           "<<1>>, <<2,1>>, <<1,2,3>>; every request sequence of length <= %d" % (5 if thorough else 4),
        "traces_validated_against_impl": rep.traces, "trace_lines": rep.lines, "divergences": len(rep.diverged),
        "evaluations": summ.get("steps", 0), "distinct_nontrivial": len(set(json.dumps([x["init"], x["steps"]]) for x in inputs)),
        "requests_by_kind": kinds,
        "rule": "TLC -simulate request sequences (<=5) plus all pairs of requests, each delivered as the real internal query "
                "(_serf_install-key / _serf_use-key / _serf_remove-key, wire format, NotifyMsg) to a node with Keyring + KeyringFile; after "
                "every step the file is loaded through agent.Create(KeyringFile) and compared with the live keyring; TLC validates every step "
                "against KeyOps.tla and judges it with the C22 monitors",
        "samples": [dict(init=inputs[0]["init"], steps=inputs[0]["steps"][:5])] if inputs else [],
    }
    assume = ["requests are handled one after another (the next one is sent after the previous reply was captured)",
              "file system writes succeed (a failing os.WriteFile is outside the property's 'rejected as invalid')",
              "empty request payloads are included (answered with an error reply since /repo commit 4990528)"]
    vlib.finish(ctx, "model_checking", cov, assume, new, known)


TRUNC_NS_QUICK = [0, 1, 2, 3, 4, 15, 16, 17, 31, 40, 41, 60]


def run_c23(ctx, replay=None):
    thorough = ctx.thorough()
    rng = random.Random(ctx.seed)
    binary = build_keys(ctx)
    gen = dist = 0
    if replay:
        v = json.load(open(replay))
        agg = [v["schedule"]] if v.get("mode") == "keyagg" else []
        trunc = [v["schedule"]] if v.get("mode") == "keytrunc" else []
    else:
        r = vlib.tlc(ctx, "Gen_KeyOps", key_cfg("Agg", emit=True), timeout=3000)
        if r.violated:
            raise vlib.Inconclusive("the aggregation model violates its own C23 monitors -- spec error, no verdict")
        gen, dist = gen + r.generated, dist + r.distinct
        agg = [s[0] for s in vlib.edge_schedules(r)]
        if len(agg) < 1000:
            raise vlib.Inconclusive("only %d aggregation inputs enumerated" % len(agg))
        if not thorough:       # every input with at most one reply, a seeded sample of the others
            small = [x for x in agg if len(x["rs"]) <= 1]
            agg = small + rng.sample([x for x in agg if len(x["rs"]) > 1], 700 - len(small))
        for x in agg:
            rng.shuffle(x["rs"])        # arrival order
        ns = list(range(0, 61)) if thorough else TRUNC_NS_QUICK
        r = vlib.tlc(ctx, "Gen_KeyOps", key_cfg("Trunc", ns=ns, emit=True), timeout=3000)
        if r.violated:
            raise vlib.Inconclusive("the truncation model violates its own C23 monitors -- spec error, no verdict")
        gen, dist = gen + r.generated, dist + r.distinct
        trunc = [s[0] for s in vlib.edge_schedules(r)]
        trunc.sort(key=lambda x: (x["kc"], x["n"], x["limit"]))
    for i, x in enumerate(agg):
        x["id"] = i
    for i, x in enumerate(trunc):
        x["id"] = 1000000 + i
    allp = os.path.join(ctx.scratch, "c23-all-trace.ndjson")
    summ = {}
    with open(allp, "w") as out:
        for mode, inputs in (("keyagg", agg), ("keytrunc", trunc)):
            if inputs:
                tp, summ[mode] = key_drive(ctx, binary, mode, inputs, "a")
                with open(tp) as f:
                    for line in f:
                        out.write(line)
    rep = vlib.validate(ctx, "Trace_KeyOps", KEY_TRACE_CFG, allp, timeout=3000)
    if rep.diverged:
        ctx.log("divergences: %s" % rep.diverged[:8])

    def inputs_of(tid):
        return ("keytrunc", trunc[tid - 1000000]) if tid >= 1000000 else ("keyagg", agg[tid])
    viol = key_confirm(ctx, binary, rep, inputs_of, "C23_")
    new, known = vlib.classify(ctx.prop, viol)
    late = summ.get("keyagg", {}).get("late", 0)
    if late > max(5, len(agg) // 20):
        raise vlib.Inconclusive("%d of %d aggregation runs were overtaken by the query timeout" % (late, len(agg)))
    cov = {
        "states": dist or 1, "transitions": gen or 1, "exhaustive": bool(dist),
        "model_constants": "aggregation: reply multisets <= 4 over {ok x 4 key sets, ok+message x 2, failed, failed without message (captured from a "
                           "real handler given a corrupt request), wrong type byte, undecodable, empty}, "
                           "members 1..4, list/install/use/remove; truncation: key counts %s, keys of 16/24/32 bytes, every size limit within 1 "
                           "of a size the loop compares with" % ("0..60" if thorough else TRUNC_NS_QUICK),
        "traces_validated_against_impl": rep.traces, "trace_lines": rep.lines, "divergences": len(rep.diverged),
        "evaluations": sum(s.get("evaluations", 0) for s in summ.values()), "distinct_nontrivial": len(agg) + len(trunc),
        "aggregation_inputs": len(agg), "truncation_inputs": len(trunc), "driver": summ,
        "rule": "every input enumerated by TLC from KeyOps.tla (quick: a seeded sample of the aggregation inputs) is executed: real "
                "KeyManager.ListKeys/InstallKey/UseKey/RemoveKey on the first node of a quiet cluster with the wanted number of memberlist "
                "members, replies injected for the query's (LTime, ID) read off the broadcast queue; real _serf_list-keys queries to a node "
                "holding N keys under the given QueryResponseSizeLimit, reply captured on the transport; TLC compares every observation with "
                "the model (exact encoded sizes) and judges it with the C23 monitors",
        "samples": [agg[0]] if agg else [],
    }
    assume = ["at most one reply per member and no more replies than members (streamKeyResp stops reading at NumResp = NumNodes)",
              "PrimaryKeys[\"\"] / Keys[\"\"] entries (replies naming no primary key) are not judged",
              "truncation: query LTime < 128, 65536 <= ID < 2^32, node name of 6 characters (fixes the envelope size); relay factor 0",
              "'one key fits' = the reply listing one key plus the truncation note is within the limit"]
    vlib.finish(ctx, "model_checking", cov, assume, new, known)


def run(ctx, replay=None):
    if ctx.prop == "C07":
        return run_c07(ctx, replay)
    if ctx.prop == "C22":
        return run_c22(ctx, replay)
    return run_c23(ctx, replay)
