"""C08, C33, C35, C36: receiver side of queries and size limits (spec/QueryFilter.tla + Regex.tla,
spec/Limits.tla, spec/Relay.tla, spec/ConflictVote.tla; driver harness/cmd/queryrecv)."""
PROPS = ["C08", "C33", "C35", "C36"]
# id: (level, what the check establishes, trusted base / assumptions, technique, DESIGN.md section)
_TECH = ('TLA+ functional-oracle spec whose operators are the property\'s definition + TLC exhaustive enumeration of the bounded '
         'input domain (one implementation run per TLC vector); vectors executed on a real quiet Serf node; TLC trace validation '
         'of every recorded step with the property monitors evaluated on observed outputs')
CLAIMS = {
    'C08': (
        'model_checking',
        'TLC enumerates every query vector of the bounded domain of spec/QueryFilter.tla (filter sequences over 20 filter kinds: '
        'node-name lists with/without the node and near-miss names, tag patterns from the regex AST of spec/Regex.tla with and without '
        'anchors (quick: all 108 depth-1 patterns x every value over {a,b,c} up to length 3; thorough: all 6060 depth-2 patterns x values up to length 2) incl. missing and empty tags, invalid patterns, undecodable filters, '
        'unknown filter types; ack and no-broadcast flags; names with/without the _serf_ prefix and near misses; first sight, exact '
        'repeat, same time/other id, other time/same id, and every delivery history of length 3 (thorough 4) over four (time,id) keys; query ids 0 / 2^31 / 2^32-1 and undefined bits 2 and 31 of the uint32 flags word) with the expected (delivered, acked, re-broadcast) computed by the TLA+ '
        'definition (PartialMatch over the finite language = regexp.MatchString); each vector is delivered through NotifyMsg to a real '
        'node with the chosen tags and the application channel (marker technique), the ack packet on the transport and the broadcast '
        'queue are compared with the definition by TLC on every step; the open model (any interleaving of deliveries, (lt,id) in '
        '{1,2}x{1,2}) is model-checked against the same monitor.',
        'Trusts TLC, the regex renderer (AST to Go syntax, fully parenthesised) and the wire-format mirror in the harness, and the '
        'overlay accessor exposing the head of the event pipeline. A zero-length filter is judged like any other invalid filter '
        '(it must exclude the node). Patterns beyond the AST domain (classes, counted repetition, flags) are not covered.',
        _TECH, '5 C08'),
    'C33': (
        'model_checking',
        'TLC enumerates every boundary vector of spec/Limits.tla (UserEvent with name+payload or encoded size at limit-2..limit+2 (thorough -4..+4) for '
        'configured limits below/at/above the 9 KB hard cap incl. limits raised after Create; Query at QuerySizeLimit-2..+2; '
        'Query.Respond with the encoded response or its relay wrapper at QueryResponseSizeLimit-2..+2, relay factor 0/1, with/without '
        'a relay-capable peer); the harness lands the real encoder exactly on each size (mirror encoders cross-checked against every '
        'message the node really queued or sent), runs the real UserEvent/Query/Respond and TLC validates every step: accepted iff '
        'within every limit, rejected => error and nothing delivered, queued or sent, accepted event delivered once and queued once, '
        'no message above its limit in the queues or on the transport.',
        'Trusts TLC, the harness byte-size bookkeeping (cross-checked on every accepted vector), overlay accessors for clocks and the '
        'event pipeline head. Configured limits are sampled (64, 512, 9215, 9216, 9217, 12216 / 256, 1024, 4096), not all values.',
        _TECH, '5 C33'),
    'C35': (
        'model_checking',
        'TLC enumerates every member table of spec/Relay.tla (up to 3 (thorough 4) other members x status alive/leaving/left/failed x memberlist '
        'protocol max 4/5, as multisets) x relay factor 0..5 and the uint8 boundary classes 127, 128, 254, 255; a real node is given exactly that table (NotifyJoin/NotifyLeave/leave '
        'intents, verified through Members()), receives queries with that relay factor and the ack flag and the application responds; '
        'the packets of each of 20 replies per vector (ack path and Respond path) are classified and TLC checks: exactly one direct '
        'reply to the origin, at most k relays, pairwise distinct, only to alive protocol>=5 members, never itself, none when fewer '
        'than k+1 members are known. kRandomMembers is additionally called through an accessor with lists of up to 3 entries over 3 '
        'names with repeats and the node itself (quick: all 91 lists up to length 2, thorough: all 820 up to length 3; x k 0..3 and 255, 20 calls each).',
        'Trusts TLC, the packet classifier (destination by transport address), and that 20 seeded repetitions expose the random '
        'choice (a wrong choice that needs a rarer draw can be missed). The model\'s outcome set is checked exhaustively by TLC.',
        _TECH, '5 C35'),
    'C36': (
        'model_checking',
        '(Thorough also: spec/MajorityLaw.tla -- Apalache shows the verdict formula is the strict majority for every number of replies.) TLC enumerates every multiset of up to 4 (thorough 5) replies over 9 kinds (matching address in 4/16-byte form, other address, other port, '
        'no member, wrong type byte, undecodable body, type byte only, empty payload) of spec/ConflictVote.tla with the expected verdict '
        'computed by the definition (shutdown iff matching < floor(valid/2)+1); each vector is run on a real node: NotifyConflict through '
        'serf\'s conflict delegate, the replies injected (shuffled by seed) as query responses to the real _serf_conflict query before it '
        'times out, and State() after the node logged the outcome; TLC validates every vector. Conflicts about another name and with '
        'resolution disabled are checked to start nothing.',
        'Trusts TLC, the overlay accessor listing open queries (used to pace the injections: the response channel of a one-node '
        'cluster holds one entry), and the node\'s log line as the signal that resolution finished. Replies from the same sender twice '
        'are not in the domain (de-duplication belongs to C07).',
        _TECH, '5 C36'),
}
import concurrent.futures
import copy
import json
import os

import vlib

TRACE_CFG = "SPECIFICATION TraceSpec\nINVARIANT Done\n"


def build(ctx):
    ov = vlib.overlay_for(ctx, hook_pkgs=[("serf", "serf_state"), ("serf", "serf_queryrecv")])
    return vlib.go_build(ctx, "queryrecv", overlay=ov)


def vectors(ctx, module, cfg, invariants, timeout=1500):
    """Exhaustive TLC run of a generator module; returns (tlc result, de-duplicated list of schedules)."""
    text = cfg + "".join("INVARIANT %s\n" % i for i in invariants) + "INVARIANT Emit\n"
    r = vlib.tlc(ctx, module, text, timeout=timeout)
    if r.violated:
        raise vlib.Inconclusive("the model violates its own monitor (%s) -- spec error, no verdict" % r.violated)
    seen, out = set(), []
    for s in vlib.edge_schedules(r):
        k = json.dumps(s, sort_keys=True)
        if k not in seen:
            seen.add(k)
            out.append(s)
    r.out = ""  # can be large
    return r, out


CRASHES = []   # [(mode, schedule, tail of the driver output)] node processes that died while running a schedule


def execute(ctx, binary, mode, scheds, tag, args=()):
    """Runs the schedules; if the driver PROCESS dies inside a schedule (a panic in one of serf's own goroutines
    cannot be recovered by the driver), that schedule is recorded in CRASHES, dropped from the trace (its reset line
    stays, so trace ids keep matching schedule indexes) and the driver resumes with the next one."""
    sp = os.path.join(ctx.scratch, "sched-%s.ndjson" % tag)
    tp = os.path.join(ctx.scratch, "trace-%s.ndjson" % tag)
    vlib.write_schedules(sp, scheds)
    start = 0
    while True:
        extra = ["-from", str(start)] if start else []
        rc, out = vlib.run_driver(ctx, binary, ["-mode", mode, "-in", sp, "-out", tp] + list(args) + extra, timeout=3000)
        if rc == 0:
            return tp
        crashed = rc == 2 and ("panic:" in out or "fatal error:" in out) and mode != "c36"
        if not crashed or len(CRASHES) >= 20:
            raise vlib.Inconclusive("queryrecv driver (%s) failed rc=%d:\n%s" % (mode, rc, out[-3000:]))
        with open(tp) as f:
            lines = f.read().split("\n")
        last = max(i for i, ln in enumerate(lines) if ln.startswith('{"act":{"a":"reset"'))
        sid = json.loads(lines[last])["act"]["id"]
        with open(tp, "w") as f:
            f.write("\n".join(lines[:last + 1]) + "\n")
        CRASHES.append((mode, scheds[sid], out[-1500:]))
        ctx.log("the node process died while running schedule %d (%s); resuming after it" % (sid, tag))
        start = sid + 1
        if start >= len(scheds):
            return tp


def validate_many(ctx, module, cfg, jobs):
    """jobs: [(tag, trace path)] validated by independent TLC processes in parallel."""
    def one(i, tp):
        c = copy.copy(ctx)
        c.scratch = ctx.sub("val%d-%d" % (ctx.ntlc, i))
        c.ntlc = 0
        return vlib.validate(c, module, cfg, tp, timeout=3000)
    ctx.ntlc += 1
    with concurrent.futures.ThreadPoolExecutor(max_workers=max(1, min(4, len(jobs)))) as ex:
        futs = [ex.submit(one, i, tp) for i, (_, tp) in enumerate(jobs)]
        return [f.result() for f in futs]


class Family:
    """One property: how to enumerate, execute and validate."""
    def __init__(self, ctx):
        self.ctx = ctx

    # --- to be provided per property
    mode = None
    trace_module = None
    prefix = None

    def trace_cfg(self):
        return TRACE_CFG

    def driver_args(self):
        return []

    def confirm(self, binary, groups, reps):
        """Monitor reports -> violations confirmed by a second execution from scratch.
        groups: [(tag, schedules)], reps: matching TraceReports.  Also returns divergence count after re-execution."""
        ctx = self.ctx
        viol, seen = [], {}
        for (tag, scheds), rep in zip(groups, reps):
            for (tid, line, clauses, tags) in rep.monitors:
                mine = sorted(c for c in clauses if c.startswith(self.prefix))
                if not mine:
                    continue
                key = ",".join(mine)
                if seen.get(key, 0) >= 2:
                    continue
                seen[key] = seen.get(key, 0) + 1
                t2 = execute(ctx, binary, self.mode, [scheds[tid]], "re-%s-%d" % (tag, tid), self.driver_args())
                rep2 = vlib.validate(ctx, self.trace_module, self.trace_cfg(), t2)
                again = sorted(set(c for m in rep2.monitors for c in m[2] if c in mine))
                if again:
                    viol.append({"clauses": again, "tags": tags, "schedule": scheds[tid], "prop": ctx.prop})
                else:
                    ctx.log("report %s on vector %d (%s) not reproduced; ignored" % (mine, tid, tag))
        return viol

    def confirm_divergences(self, binary, groups, reps):
        """Lines the model could not explain, still unexplained when the vector is run again."""
        ctx = self.ctx
        n, samples = 0, []
        for (tag, scheds), rep in zip(groups, reps):
            tids = []
            for (tid, line) in rep.diverged:
                if tid not in tids:
                    tids.append(tid)
            for tid in tids[:3]:
                t2 = execute(ctx, binary, self.mode, [scheds[tid]], "div-%s-%d" % (tag, tid), self.driver_args())
                rep2 = vlib.validate(ctx, self.trace_module, self.trace_cfg(), t2)
                if rep2.diverged:
                    n += 1
                    lines = vlib.read_ndjson(t2)
                    samples.append(lines[rep2.diverged[0][1] - 1])
            n += max(0, len(tids) - 3)
        return n, samples


def finish(fam, binary, mc_runs, groups, reps, cov_extra, assumptions):
    ctx = fam.ctx
    viol = fam.confirm(binary, groups, reps)
    new, known = vlib.classify(ctx.prop, viol)
    ndiv, dsamples = (0, [])
    if not viol:
        ndiv, dsamples = fam.confirm_divergences(binary, groups, reps)
    nsched = sum(len(s) for _, s in groups)
    cov = {
        "states": sum(r.distinct for r in mc_runs), "transitions": sum(r.generated for r in mc_runs),
        "exhaustive": bool(mc_runs),
        "traces_validated_against_impl": sum(r.traces for r in reps),
        "trace_lines": sum(r.lines for r in reps),
        "divergences": sum(len(r.diverged) for r in reps),
        "distinct_nontrivial": nsched,
    }
    cov.update(cov_extra)
    cov["node_process_crashes"] = len(CRASHES)
    if CRASHES and not new:
        vlib.write_evidence(ctx, "model_checking", cov, assumptions, 0)
        raise vlib.Inconclusive("the node process died on %d schedule(s) (a crash is property C09's subject; no verdict for %s on "
                                "those inputs); first: %s\n%s" % (len(CRASHES), ctx.prop, json.dumps(CRASHES[0][1])[:800], CRASHES[0][2][-800:]))
    if ndiv and not new:
        vlib.write_evidence(ctx, "model_checking", cov, assumptions, 0)
        raise vlib.Inconclusive("%d vector(s) behave in a way the model cannot explain although no property clause failed "
                                "(reproduced on a second run); first: %s" % (ndiv, json.dumps(dsamples[:1])[:1500]))
    vlib.finish(ctx, "model_checking", cov, assumptions, new, known)


# ----------------------------------------------------------------------------------------------- C08

class C08(Family):
    mode, trace_module, prefix = "c08", "Trace_QueryFilter", "C08_"

    def trace_cfg(self):
        return TRACE_CFG + "CONSTANT MaxSteps = 1000000\n"


def gen_cfg08(slice_, rd, vl, hl):
    return ("INIT GenInit\nNEXT GenNext\nCONSTANT MaxSteps = 1000000\nCONSTANT Slice = \"%s\"\nCONSTANT RD = %d\nCONSTANT VL = %d\n"
            "CONSTANT HL = %d\n" % (slice_, rd, vl, hl))


def run_c08(ctx, replay):
    fam = C08(ctx)
    binary = build(ctx)
    mcs, groups = [], []
    if replay:
        groups = [("replay", [json.load(open(replay))["schedule"]])]
        consts = "replay"
    else:
        steps = 5 if ctx.thorough() else 4
        mc = vlib.tlc(ctx, "QueryFilter", "INIT Init\nNEXT Next\nINVARIANT C08\nINVARIANT TypeOK\nCONSTANT MaxSteps = %d\n" % steps,
                      timeout=2400)
        if mc.violated:
            raise vlib.Inconclusive("the open model violates its own monitor (%s) -- spec error, no verdict" % mc.violated)
        mcs.append(mc)
        slices = [("pat", 2, 2, 1), ("combo", 1, 1, 1), ("deep", 1, 1, 1), ("hist", 1, 1, 4)] if ctx.thorough() else [("quick", 1, 3, 3)]
        for (sl, rd, vl, hl) in slices:
            r, scheds = vectors(ctx, "Gen_QueryFilter", gen_cfg08(sl, rd, vl, hl), ["C08", "TypeOK"], timeout=2400)
            mcs.append(r)
            groups.append((sl, scheds))
            ctx.log("slice %s: %d scripts" % (sl, len(scheds)))
        consts = ("open model: boot + %d deliveries over 7 filters x flags x 2 names x (lt,id) in {1,2}^2; generator slices %s "
                  "(slice, regex depth, value length, history length)" % (steps - 1, slices))
    jobs = [(tag, execute(ctx, binary, "c08", scheds, tag)) for tag, scheds in groups]
    reps = validate_many(ctx, "Trace_QueryFilter", fam.trace_cfg(), jobs)
    dels = sum(1 for _, ss in groups for s in ss for st in s if st["a"] == "deliver")
    empties = sum(1 for _, ss in groups for s in ss for st in s
                  if st["a"] == "deliver" and any(f["k"] == "empty" for f in st["fs"]))
    panics = 0
    for _, tp in jobs:
        with open(tp) as f:
            for line in f:
                if '"panic":true' in line:
                    panics += 1
    cov = {
        "model_constants": consts, "evaluations": dels,
        "deliveries_with_zero_length_filter": empties, "observed_panics_in_NotifyMsg": panics,
        "rule": "every script TLC enumerated (boot with the tag map, then deliveries) executed on a real quiet node through NotifyMsg; "
                "evaluations = deliveries judged by the C08 monitor (a zero-length filter counts as an invalid, excluding filter); "
                "distinct = scripts",
        "samples": [groups[0][1][0][:3]] if groups and groups[0][1] else [],
    }
    assume = ["the application channel is observed up to a marker pushed through the head of the event pipeline (FIFO)",
              "regexp.MatchString is compared with PartialMatch only on the AST domain of spec/Regex.tla"]
    finish(fam, binary, mcs, groups, reps, cov, assume)


# ----------------------------------------------------------------------------------------------- C33

OVS = "{" + ",".join(str(i) for i in range(20, 46)) + "}"
ROVS = "{" + ",".join(str(i) for i in range(50, 81)) + "}"


class C33(Family):
    mode, trace_module, prefix = "c33", "Trace_Limits", "C33_"

    def __init__(self, ctx, dmax):
        Family.__init__(self, ctx)
        self.dmax = dmax

    def consts(self, ovs, rovs):
        return "CONSTANT Hard = 9216\nCONSTANT OVS = %s\nCONSTANT ROVS = %s\nCONSTANT Dmax = %d\n" % (ovs, rovs, self.dmax)

    def trace_cfg(self):
        return TRACE_CFG + self.consts(OVS, ROVS)


def run_c33(ctx, replay):
    fam = C33(ctx, 4 if ctx.thorough() else 2)
    binary = build(ctx)
    mcs = []
    if replay:
        groups = [("replay", [json.load(open(replay))["schedule"]])]
    else:
        mc = vlib.tlc(ctx, "Limits", "INIT Init\nNEXT Next\nINVARIANT C33\n" + fam.consts(OVS, ROVS))
        if mc.violated:
            raise vlib.Inconclusive("the model violates its own monitor (%s) -- spec error, no verdict" % mc.violated)
        mcs.append(mc)
        r, scheds = vectors(ctx, "Gen_Limits", "INIT Init\nNEXT Next\n" + fam.consts("{30}", "{62}"), ["C33"])
        mcs.append(r)
        groups = [("v", scheds)]
    jobs = [(tag, execute(ctx, binary, "c33", scheds, tag)) for tag, scheds in groups]
    reps = validate_many(ctx, "Trace_Limits", fam.trace_cfg(), jobs)
    kinds = {}
    for _, ss in groups:
        for s in ss:
            kinds[s[0]["a"]] = kinds.get(s[0]["a"], 0) + 1
    cov = {
        "model_constants": "Hard = 9216; encoder overhead 20..45, relay wrapper overhead 50..80; offsets -%d..%d around every boundary"
                           % (fam.dmax, fam.dmax),
        "evaluations": sum(len(s) for _, s in groups), "vectors_by_kind": kinds,
        "rule": "every vector of Limits!Vectors executed once on a fresh real node (UserEvent / Query / Query.Respond) with sizes landed "
                "exactly on the target by the harness; evaluations = vectors judged by the C33 monitor",
        "samples": [groups[0][1][0]] if groups and groups[0][1] else [],
    }
    assume = ["sizes are computed by mirror encoders that are compared with every message the node really queued or sent",
              "a configured user-event limit above 9 KB is only reachable by changing the configuration after Create (Create refuses it)",
              "the random query id is assumed to encode in 5 bytes when a query is rejected (probability 1 - 2^-15)"]
    finish(fam, binary, mcs, groups, reps, cov, assume)


# ----------------------------------------------------------------------------------------------- C35

class C35(Family):
    mode, trace_module, prefix = "c35", "Trace_Relay", "C35_"

    def __init__(self, ctx, nm, np_, runs):
        Family.__init__(self, ctx)
        self.nm, self.np, self.runs = nm, np_, runs

    def consts(self):
        return "CONSTANT NM = %d\nCONSTANT NP = %d\nCONSTANT Runs = 1\n" % (self.nm, self.np)

    def trace_cfg(self):
        return TRACE_CFG + self.consts()

    def driver_args(self):
        return ["-runs", str(self.runs)]


def run_c35(ctx, replay):
    fam = C35(ctx, 4, 3, 20) if ctx.thorough() else C35(ctx, 3, 2, 20)
    binary = build(ctx)
    mcs = []
    if replay:
        fam = C35(ctx, 4, 3, 20)
        groups = [("replay", [json.load(open(replay))["schedule"]])]
    else:
        mc = vlib.tlc(ctx, "Relay", "INIT Init\nNEXT Next\nINVARIANT C35\n" + fam.consts())
        if mc.violated:
            raise vlib.Inconclusive("the model violates its own monitor (%s) -- spec error, no verdict" % mc.violated)
        mcs.append(mc)
        r, scheds = vectors(ctx, "Gen_Relay", "INIT Init\nNEXT GenNext\n" + fam.consts(), [])
        mcs.append(r)
        groups = [("v", scheds)]
    jobs = [(tag, execute(ctx, binary, "c35", scheds, tag, fam.driver_args())) for tag, scheds in groups]
    reps = validate_many(ctx, "Trace_Relay", fam.trace_cfg(), jobs)
    replies = full = could = 0
    for _, tp in jobs:
        for ln in vlib.read_ndjson(tp):
            if ln["act"]["a"] != "relay":
                continue
            v = ln["act"]
            elig = len(set(m["nm"] for m in v["mem"] if m["st"] == 1 and m["pm"] >= 5 and m["nm"] != 0))
            known = len(v["mem"]) + (1 if v["via"] == "node" else 0)
            for run in ln["obs"]["runs"]:
                replies += 1
                if v["k"] > 0 and elig > 0 and (v["via"] == "pick" or known >= v["k"] + 1):
                    could += 1
                    if len(run["relays"]) == min(v["k"], elig):
                        full += 1
    cov = {
        "model_constants": "node path: up to %d other members x 4 statuses x protocol max {4,5} (multisets) x k in 0..5,127,128,254,255; pick path: lists up to "
                           "%d entries over names {self,1,2} x 3 kinds x k in 0..3,255; %d replies per vector" % (fam.nm, fam.np, fam.runs),
        "evaluations": replies, "replies_that_could_relay": could, "of_which_used_min_k_eligible_relays": full,
        "rule": "every vector of Relay!Vectors executed on a real node whose member table was built to match (node path: ack path and "
                "Respond path alternate) or through the kRandomMembers accessor (pick path); evaluations = replies judged by the C35 monitor",
        "samples": [groups[0][1][0]] if groups and groups[0][1] else [],
    }
    assume = ["the random choice is exercised by %d seeded replies per vector (global math/rand seeded from VERIF_SEED; background "
              "goroutines may also draw from it)" % fam.runs,
              "relay destinations are identified by the transport address the packet was written to"]
    finish(fam, binary, mcs, groups, reps, cov, assume)


# ----------------------------------------------------------------------------------------------- C36

class C36(Family):
    mode, trace_module, prefix = "c36", "Trace_ConflictVote", "C36_"

    def __init__(self, ctx, maxr):
        Family.__init__(self, ctx)
        self.maxr = maxr

    def consts(self):
        return "CONSTANT MaxReplies = %d\n" % self.maxr

    def trace_cfg(self):
        return TRACE_CFG + self.consts()

    def driver_args(self):
        return ["-par", str(max(4, min(16, vlib.NCPU))), "-timeout", "40"]


def majority_law(ctx):
    """Thorough tier: the verdict formula of ConflictVote (the one resolveNodeConflict uses) is the strict majority for EVERY
    number of valid replies (spec/MajorityLaw.tla, n and m arbitrary naturals, Apalache); an off-by-one verdict must be refuted;
    TLC ties MajorityLaw's formula to ConflictVote's on 0..64.  Unexpected outcomes are spec errors (exit 2), never violations."""
    for inv, want in (("Law", "ok"), ("WrongLaw", "cex")):
        got = vlib.apalache(ctx, "MajorityLaw", ["--init=Init", "--inv=" + inv, "--length=0"])
        if got != want:
            raise vlib.Inconclusive("MajorityLaw: apalache --inv=%s gave %s, expected %s -- spec error, no verdict" % (inv, got, want))
    r = vlib.tlc(ctx, "MC_MajorityLaw", "INIT Init\nNEXT Next\nCONSTANT MaxReplies = 1\n", workers=2)
    if r.violated:
        raise vlib.Inconclusive("MC_MajorityLaw violated %s -- spec error, no verdict" % r.violated)
    return {"tool": "apalache-mc 0.58.0, n and m arbitrary naturals (m <= n); TLC ASSUME ties the formula to ConflictVote on 0..64",
            "obligations": ["2*Majority(n) > n", "2*(Majority(n)-1) <= n", "shutdown <=> 2*m <= n", "n = 0 => shutdown",
                            "m = n > 0 => no shutdown", "off-by-one verdict refuted"]}


def run_c36(ctx, replay):
    fam = C36(ctx, 5 if ctx.thorough() else 4)
    binary = build(ctx)
    mcs = []
    if replay:
        fam = C36(ctx, 5)
        groups = [("replay", [json.load(open(replay))["schedule"]])]
    else:
        r, scheds = vectors(ctx, "Gen_ConflictVote", "INIT Init\nNEXT Next\n" + fam.consts(), ["C36"])
        mcs.append(r)
        groups = [("v", scheds)]
    jobs = [(tag, execute(ctx, binary, "c36", scheds, tag, fam.driver_args())) for tag, scheds in groups]
    reps = validate_many(ctx, "Trace_ConflictVote", fam.trace_cfg(), jobs)
    law = majority_law(ctx) if ctx.thorough() and not replay else None
    shut = ran = slow = 0
    for _, tp in jobs:
        for ln in vlib.read_ndjson(tp):
            if ln["act"]["a"] == "conflict":
                ran += 1 if ln["obs"]["query"] else 0
                shut += 1 if ln["obs"]["shutdown"] else 0
                slow += 1 if ln["obs"]["timeout_ms"] > 40 else 0
    cov = {
        "model_constants": "reply multisets of size <= %d over 9 reply kinds; plus own/enabled gating vectors" % fam.maxr,
        "evaluations": ran, "vectors_ending_in_shutdown": shut, "vectors_rerun_with_longer_query_timeout": slow,
        "rule": "every vector of ConflictVote!Vectors executed on a fresh real node (NotifyConflict, replies injected into the open "
                "_serf_conflict query, State() after the logged outcome); evaluations = vectors in which a resolution ran and was judged",
        "samples": [groups[0][1][-1]] if groups and groups[0][1] else [],
    }
    if law:
        cov["unbounded_majority_law"] = law
    assume = ["replies are injected one at a time, each after the vote counter took the previous one (response channel capacity is the "
              "member count, 1 here); a vector whose query closed before all replies were in is re-run with a 4x longer timeout",
              "every reply comes from a different sender"]
    finish(fam, binary, mcs, groups, reps, cov, assume)


def run(ctx, replay=None):
    {"C08": run_c08, "C33": run_c33, "C35": run_c35, "C36": run_c36}[ctx.prop](ctx, replay)
