"""C02 (step clauses), C03, C04 (intents), C15: open single replica (spec/SerfReplica.tla)."""
PROPS = ["C02", "C03", "C04", "C15"]
# id: (level, what the check establishes, trusted base / assumptions, technique, DESIGN.md section)
CLAIMS = {
    'C03': (
        'model_checking',
        'TLC checks the C03 monitors (self listed alive while not leaving; every leave/force-leave/prune claim or state-sync left-entry about the local node newer than its join is answered by a queued join strictly newer than the claim) exhaustively on the open single-replica model and on every step of TLC-simulated input sequences executed on a real Serf node (messages in the real wire format through NotifyMsg / MergeRemoteState, force-leave and broadcastJoin through the API).',
        'Trusts TLC, the overlay accessor that reads members/status times/lists/intent buffer under memberLock, the wire encoding mirror in the harness, and that memberlist never reports a leave for a node it has not reported joined.',
        'TLA+ spec (SerfHandlers/SerfReplica) + TLC exhaustive check of the monitors; TLC-simulated input sequences replayed on a real quiet Serf node; TLC trace validation of every step with property monitors on observed state',
        '5 C03',
    ),
    'C02': (
        'model_checking',
        'Two bound models. (1) spec/SerfReplica.tla: TLC checks the step clauses (status time only grows; an intent or synced intent not newer than the stored time changes nothing) exhaustively on the open single-replica model and on every step of simulated input sequences executed on a real Serf node. (2) spec/SerfCluster.tla: N replicas composed from the same handler operators with a gossip pool (any order, duplication, loss), one-directional push/pull with current LocalState, memberlist notifications in causal order plus bounded spurious detections, join / leave (blocking split) / force-leave / crash; TLC checks the agreement clause in every quiet sync state exhaustively for 2 nodes (formed and from scratch) and 3 formed nodes (thorough), and TLC-simulated schedules are executed on 2-3 real quiet Serf nodes, the harness then performs the sync closure for real (every delivery, push/pull and truthful notification until two rounds change no view) and TLC validates every step and judges agreement on the observed views. Four genuine agreement defects found this way are recorded known findings (tags).',
        'Trusts TLC, the overlay accessor, the wire mirror. Viewers are running members that have not begun leaving; a leave counts as known only once its intent was handed to the network (a node that believes it has no alive peer leaves silently); quiescence is over statuses/lists/queues because status times of left members keep growing through push/pull. memberlist itself is the modelled environment here (C01 runs real memberlist). Prune intents are exercised in the single-replica model only (handlePrune sleeps BroadcastTimeout). The cluster model restarts only crashed members; a member coming back after a graceful leave is exercised in the single-replica model (list consistency, C15) and on real clusters (C01).',
        'TLA+ specs (SerfHandlers/SerfReplica/SerfCluster) + TLC exhaustive checks; TLC-simulated schedules replayed on real quiet Serf nodes; TLC trace validation of every step with property monitors on observed state',
        '5 C02',
    ),
    'C04': (
        'model_checking',
        'Two bound models. Intents: the monitors C04_rebroadcast_twice (a join/leave/prune intent is queued again at most once while the member it is about is remembered), C04_merge_rebroadcast (a push/pull merge queues nothing but the local refutation) and C04_foreign_message_queued are checked exhaustively by TLC on spec/SerfReplica.tla and on every step of simulated input histories executed on a real quiet Serf node, the queue contents read synchronously through the real GetBroadcasts after every input. User events and queries: C04_event_rebroadcast_twice, C04_query_rebroadcast_twice and C04_merge_rebroadcast of spec/SerfEvents.tla (gossip, push/pull replay with and without join-ignore, local calls, restarts, every buffer size 1..4, Lamport times at both ends of the 64-bit range) checked exhaustively and on real-node traces the same way.',
        'Trusts TLC, the overlay accessors and the wire mirror. The retention window is read as: as long as the status time / buffered intent / event-buffer slot that remembers the message is held (intents are forgotten when the member is erased; events until the node restarts). Re-deliveries after the Lamport clock wrapped at 2^64-1 are the recorded C19 finding (tag witnessed_max).',
        'TLA+ specs (SerfReplica, SerfEvents) + TLC exhaustive checks; TLC-simulated histories replayed on a real quiet Serf node; TLC trace validation with property monitors on observed queues',
        '5 C04',
    ),
    'C15': (
        'model_checking',
        'TLC checks the C15 monitors (Stats() failed/left equal the counts in Members(), lists duplicate-free and status-consistent, reap removes exactly the expired failed/left members with one reap event each using the reconnect/tombstone base per list, pruned member gone) exhaustively on the model and on every step of simulated histories run on a real node whose reaper runs every 3ms with per-member expiry chosen through ReconnectTimeoutOverride.',
        'Trusts TLC, the overlay accessor that reads members/status times/lists/intent buffer under memberLock, the wire encoding mirror in the harness, and that memberlist never reports a leave for a node it has not reported joined.',
        'TLA+ spec (SerfHandlers/SerfReplica) + TLC exhaustive check of the monitors; TLC-simulated input sequences replayed on a real quiet Serf node; TLC trace validation of every step with property monitors on observed state',
        '5 C15',
    ),
}
import json
import os

import vlib

PREFIX = {"C02": "C02_", "C03": "C03_", "C04": "C04_", "C15": "C15_"}


RACE_FUNCS = ["Serf.handleNodeJoin", "Serf.handleNodeLeave", "Serf.handleNodeUpdate", "Serf.handleNodeLeaveIntent",
              "Serf.handleNodeJoinIntent", "Serf.handlePrune", "Serf.eraseNode"]


def build(ctx, instrumented=False):
    """instrumented: the membership handlers of serf.go carry yield points and cooperative locks (for the C16 handler races);
    the plain build only adds the (inert) yield hook variables the driver refers to."""
    replaced = {}
    if instrumented:
        replaced = vlib.instrument(ctx, [{"file": "serf/serf.go", "funcs": RACE_FUNCS, "locks": True, "require": RACE_FUNCS}])
    ov = vlib.overlay_for(ctx, hook_pkgs=[("serf", "serf_state"), ("serf", "serf_yield")], replaced=replaced)
    return vlib.go_build(ctx, "replica", overlay=ov, name="bin-replica-instr" if instrumented else None)


def consts(nn, maxlt, steps):
    return "CONSTANT NN = %d\nCONSTANT MaxLT = %d\nCONSTANT MaxSteps = %d\n" % (nn, maxlt, steps)


def execute(ctx, binary, nn, scheds, tag):
    sp = os.path.join(ctx.scratch, "sched-%s.ndjson" % tag)
    tp = os.path.join(ctx.scratch, "trace-%s.ndjson" % tag)
    vlib.write_schedules(sp, scheds)
    rc, out = vlib.run_driver(ctx, binary, ["-in", sp, "-out", tp, "-nn", str(nn)], timeout=1800)
    if rc != 0:
        raise vlib.Inconclusive("replica driver failed rc=%d:\n%s" % (rc, out[-3000:]))
    return tp


def run(ctx, replay=None):
    if replay and json.load(open(replay)).get("kind") == "cluster":
        return replay_cluster(ctx, replay)
    binary = build(ctx)
    pre = PREFIX[ctx.prop]
    pre_ = pre
    nn = 3
    tcfg = "SPECIFICATION TraceSpec\nINVARIANT Done\n" + consts(nn, 9, 100000)
    mc = None
    if replay:
        scheds = [json.load(open(replay))["schedule"]]
    else:
        mc = vlib.tlc(ctx, "SerfReplica", consts(2, 2, 4 if ctx.thorough() else 3) + "INIT Init\nNEXT Next\nINVARIANT Props\n",
                      timeout=3000)
        if mc.violated:
            raise vlib.Inconclusive("the model violates its own monitors -- spec error, no verdict")
        num, depth = (1500, 80) if ctx.thorough() else (250, 60)
        _, scheds = vlib.simulate_schedules(ctx, "Gen_SerfReplica", consts(nn, 4, depth) + "INIT GenInit\nNEXT GenNext\n",
                                            num, depth, timeout=3000)
    tp = execute(ctx, binary, nn, scheds, "a")
    rep = vlib.validate(ctx, "Trace_SerfReplica", tcfg, tp, timeout=3000)
    viol, seen = [], {}
    for (tid, line, clauses, tags) in rep.monitors:
        mine = sorted(c for c in clauses if c.startswith(pre))
        if not mine:
            continue
        key = ",".join(mine)
        if seen.get(key, 0) >= 2:
            continue
        seen[key] = seen.get(key, 0) + 1
        t2 = execute(ctx, binary, nn, [scheds[tid]], "re%d" % tid)
        rep2 = vlib.validate(ctx, "Trace_SerfReplica", tcfg, t2)
        again = sorted(set(c for m in rep2.monitors for c in m[2] if c in mine))
        if again:
            viol.append({"clauses": again, "tags": [], "schedule": scheds[tid]})
        else:
            ctx.log("report %s on trace %d not reproduced; ignored" % (mine, tid))
    # divergence-directed amplification: where the real node left the model, the exhaustive result does not transfer, so
    # that neighbourhood is searched directly: the diverging prefix followed by every single next input of a reduced alphabet
    # (and by the diverging input once more).  Reports found there are confirmed like any other.
    amp = {"prefixes": 0, "schedules": 0}
    if not viol and rep.diverged and not replay:
        lines = vlib.read_ndjson(tp)
        starts = {}
        for i, ln in enumerate(lines):
            if ln["act"]["a"] == "reset":
                starts[ln["act"]["id"]] = i
        alpha = [{"a": "msg", "ty": ty, "x": x, "lt": lt, "prune": pr, "w": 0}
                 for ty in (1, 2) for x in range(nn) for lt in (0, 1, 2, 3, 4) for pr in ((0, 1) if ty == 2 else (0,))]
        alpha += [{"a": "mljoin", "x": x} for x in range(1, nn)] + [{"a": "mlleave", "x": x} for x in range(1, nn)]
        ext, seenp = [], set()
        for (tid, l) in rep.diverged:
            if len(seenp) >= 4:
                break
            pfx = [ln["act"] for ln in lines[starts[tid] + 1:l]]
            key = json.dumps(pfx)
            if key in seenp:
                continue
            seenp.add(key)
            again = dict(pfx[-1])
            mlup = set()
            for a in pfx:
                if a["a"] == "mljoin":
                    mlup.add(a["x"])
                elif a["a"] == "mlleave":
                    mlup.discard(a["x"])
            for a in alpha + [again]:
                if a["a"] == "mljoin" and a["x"] in mlup or a["a"] == "mlleave" and a["x"] not in mlup:
                    continue
                ext.append(pfx + [a])
                ext.append(pfx + [a, again])
        if ext:
            amp = {"prefixes": len(seenp), "schedules": len(ext)}
            ta = execute(ctx, binary, nn, ext, "amp")
            repa = vlib.validate(ctx, "Trace_SerfReplica", tcfg, ta, timeout=3000)
            seen2 = {}
            for (tid, line, clauses, tags) in repa.monitors:
                mine = sorted(c for c in clauses if c.startswith(pre_))
                if not mine or seen2.get(",".join(mine), 0) >= 2:
                    continue
                seen2[",".join(mine)] = seen2.get(",".join(mine), 0) + 1
                t2 = execute(ctx, binary, nn, [ext[tid]], "ampre%d" % tid)
                rep2 = vlib.validate(ctx, "Trace_SerfReplica", tcfg, t2)
                again2 = sorted(set(c for m in rep2.monitors for c in m[2] if c in mine))
                if again2:
                    viol.append({"clauses": again2, "tags": [], "schedule": ext[tid]})
    ccov = {}
    if ctx.prop == "C02" and not replay:
        # the agreement clause: multi-node histories (spec/SerfCluster.tla) on real nodes
        from families import cluster
        cviol, ccov = cluster.run_agreement(ctx)
        viol += cviol
    if ctx.prop == "C04" and not replay:
        # the user-event / query half of C04 (spec/SerfEvents.tla, built by the events family)
        from families import events
        eviol, ecov = events.run_c04_events(ctx)
        viol += eviol
        ccov = {"events_half": ecov}
    new, known = vlib.classify(ctx.prop, viol)
    nsteps = sum(len(s) for s in scheds)
    kinds = {}
    for s in scheds:
        for st in s:
            kinds[st["a"]] = kinds.get(st["a"], 0) + 1
    cov = {
        "states": mc.distinct if mc else 1, "transitions": mc.generated if mc else 1, "exhaustive": bool(mc),
        "model_constants": "exhaustive: 2 names, times 0..2, all input sequences of length <=3 (thorough 4); simulation: 3 names, times 0..4",
        "traces_validated_against_impl": rep.traces, "trace_lines": rep.lines, "divergences": len(rep.diverged),
        "evaluations": nsteps, "distinct_nontrivial": len(set(json.dumps(s) for s in scheds)),
        "inputs_by_kind": kinds, "amplification": amp,
        "rule": "TLC -simulate behaviours of SerfReplica (memberlist notifications, join/leave/prune intents about any name incl. the "
                "local node, push/pull merges, force-leave, broadcastJoin, Leave, reap with per-member expiry) applied to a real quiet "
                "Serf node; every step's projected state validated by TLC and judged by the monitors; distinct = distinct input sequences",
        "samples": [scheds[0][:8]] if scheds else [],
    }
    cov.update(ccov)
    if "events_half" in ccov:
        eh = ccov["events_half"]
        cov["states"] += eh.get("states", 0)
        cov["transitions"] += eh.get("transitions", 0)
        cov["traces_validated_against_impl"] += eh.get("traces_validated_against_impl", 0)
    if "cluster_model" in ccov:
        cov["states"] += sum(m["states"] for m in ccov["cluster_model"])
        cov["transitions"] += sum(m["transitions"] for m in ccov["cluster_model"])
        cov["traces_validated_against_impl"] += ccov["cluster_traces"]
    assume = ["memberlist delivers no leave notification for a node it has not reported and none about the local node",
              "state is read through an overlay accessor (members, status times, failed/left lists, intent buffer) and the public API"]
    vlib.finish(ctx, "model_checking", cov, assume, new, known)


def replay_cluster(ctx, replay):
    from families import cluster
    v = json.load(open(replay))
    binary = cluster.build(ctx)
    tp, _ = cluster.execute(ctx, binary, v["nn"], v["formed"], [v["schedule"]], "replay")
    tcfg = "SPECIFICATION TraceSpec\nINVARIANT Done\n" + cluster.cfg(v["nn"], 100000, 100000, 100000, v["formed"], False)
    rep = vlib.validate(ctx, "Trace_SerfCluster", tcfg, tp)
    viol = [{"clauses": sorted(m[2]), "tags": sorted(m[3]), "schedule": v["schedule"], "nn": v["nn"], "formed": v["formed"],
             "kind": "cluster"} for m in rep.monitors]
    new, known = vlib.classify(ctx.prop, viol)
    cov = {"states": 1, "transitions": 1, "traces_validated_against_impl": rep.traces, "samples": [v["schedule"][:8]],
           "evaluations": rep.lines, "distinct_nontrivial": 2, "rule": "replay of one recorded cluster schedule"}
    vlib.finish(ctx, "model_checking", cov, ["replay"], new, known)
