"""C10, C11, C12, C13: the Snapshotter (spec/Snapshot.tla, harness/cmd/snapshot, hooks/serf_snapshot)."""
PROPS = ["C10", "C11", "C12", "C13"]
_TECH = ('TLA+ spec (Snapshot.tla: the snapshotter as a sequential machine over explicit file-system steps) + TLC exhaustive '
         'check of the property monitors; TLC-simulated schedules replayed on the real serf.Snapshotter through a file-operation '
         'shim generated from the current source; TLC trace validation of every operation boundary with the monitors evaluated '
         'on observed state')
_TRUST = ('Trusts TLC, the source rewriter (harness/cmd/snaprewrite: redirects os.OpenFile/Remove/Rename, *os.File, bufio.Writer, '
          'time.Now/NewTicker of serf/snapshot.go to a logging shim; exits inconclusive when the file uses a facility it does not '
          'know), the shim forwarding to the real calls, and process-crash semantics (what was handed to the OS survives, the '
          'bufio buffer does not; no torn writes, no power loss).')
# id: (level, what the check establishes, trusted base / assumptions, technique, DESIGN.md section)
CLAIMS = {
    'C10': (
        'model_checking',
        'TLC checks exhaustively on spec/Snapshot.tla (all histories of joins/leaves/failures/updates/reaps, user and query '
        'times, clock advances, ticks, time advances, shutdown+restart, up to the stated bound, for compaction thresholds '
        '{0, small, never}) that a clean restart recovers exactly the rejoin set with last addresses and the three clocks '
        'the inputs imply; TLC-simulated histories (length <= 40) are executed on the real Snapshotter with hostile member '
        'names (spaces, tabs, "alive: x" look-alikes, UTF-8, 100-byte names), IPv4/IPv6/empty addresses and 64-bit Lamport '
        'times, each under minCompactSize 0 / 300 / 128K, the state recovered by a second real NewSnapshotter is compared '
        'by TLC with the expected one and across thresholds; a separate input class with a member name containing '
        '"\\nleave\\n" is run and reported (tag nl_name).',
        _TRUST, _TECH, '5 C10',
    ),
    'C11': (
        'fault_enumeration',
        'Every file-system operation boundary (open, write, sync, close, remove, rename, reopen; also every buffered line) of '
        'every executed history is a crash point: the directory image captured there is replayed by a fresh real '
        'NewSnapshotter and TLC checks that the recovered state is one the snapshotter held in memory at or after the last '
        'moment all its data was with the OS, and that the snapshot file exists once something was written; the model is '
        'checked exhaustively with a crash possible after every operation and restarts from the crash image.',
        _TRUST, _TECH, '5 C11',
    ),
    'C12': (
        'fault_enumeration',
        'For executed histories, every single-fault injection point (each numbered file operation of each input: open of the '
        'temp file, writes, syncs, closes, remove, rename, reopen) is run in a child process: no panic, every fed event is '
        'forwarded, and after the fault the changes made later are what a restart recovers (the shim clock is moved past the '
        '30 s retry interval); TLC checks the same on the model exhaustively with one fault anywhere.',
        _TRUST, _TECH, '5 C12',
    ),
    'C13': (
        'model_checking',
        'TLC checks exhaustively on the model, for both settings of rejoin-after-leave and thresholds {0, small, never}, that '
        'after a graceful leave and shutdown a restart re-joins nobody (disabled) / exactly the set known at the leave '
        '(enabled), with events, ticks and forced compactions before and after the leave and a further session appending '
        'after the leave line; simulated histories with a leave are executed on the real Snapshotter and validated by TLC.',
        _TRUST, _TECH, '5 C13',
    ),
}
import json
import os
import random
import re
import shutil
import threading
import time
from concurrent.futures import ThreadPoolExecutor

import vlib

NN, NA, MAXT = 3, 3, 24     # names, addresses, abstract times of the traces
BURST = 300                   # events of a burst pushed right before a shutdown (C13)
GEN_MAXT = 6                  # times the generator uses; MAXT beyond it is for inputs the family appends
PREFIX = {"C10": "C10_", "C11": "C11_", "C12": "C12_", "C13": "C13_"}
TAG_TEXT = {"rm_window": "crash between the remove of the old snapshot and the rename of the new one (compact())",
            "swap_fault": "the failed operation was the remove/rename/reopen of compact()'s swap",
            "nl_name": "a member name contains \"\\nleave\\n\""}
THRESHOLDS = [0, 300, 128 * 1024]


# ----------------------------------------------------------------------------------------- build

def build(ctx):
    """Rewrites serf/snapshot.go of the CURRENT tree ($VERIF_REPO) and builds the driver against it."""
    tool = os.path.join(ctx.scratch, "bin-snaprewrite")
    rc, o = vlib.run(["go", "build", "-o", tool, "./cmd/snaprewrite"], cwd=vlib.HARNESS, env=vlib.goenv(), timeout=600)
    if rc != 0:
        raise vlib.Inconclusive("snaprewrite build failed:\n" + o[-3000:])
    src = os.path.join(vlib.REPO, "serf", "snapshot.go")
    dst = os.path.join(ctx.sub("rewritten"), "snapshot.go")
    rc, o = vlib.run([tool, "-in", src, "-out", dst], timeout=60)
    if rc != 0:
        raise vlib.Inconclusive("cannot intercept the file operations of serf/snapshot.go (refactored?): " + o[-2000:])
    ctx.log("snaprewrite:", o.strip())
    ov = vlib.overlay_for(ctx, hook_pkgs=[("serf", "serf_snapshot")], replaced={"serf/snapshot.go": dst})
    return vlib.go_build(ctx, "snapshot", overlay=ov)


# ----------------------------------------------------------------------------------------- TLC configs

VARIANT = {"RemoveFirst": True, "NilHandles": True}


def detect_variant(ctx):
    """Which compact() the tree contains: the model has both the code as found (remove-then-rename, handles set to
    nil before the swap) and the repaired one (reports/snapshot-fix-1/2.diff).  This only selects the model the traces
    are compared with; a wrong guess shows up as divergences, never as a verdict (the monitors do not use the model)."""
    src = open(os.path.join(vlib.REPO, "serf", "snapshot.go")).read()
    m = re.search(r"func \(s \*Snapshotter\) compact\(\).*?\n}\n", src, re.S)
    body = m.group(0) if m else src
    VARIANT["RemoveFirst"] = "os.Remove(" in body
    VARIANT["NilHandles"] = bool(re.search(r"s\.buffered\s*=\s*nil", body))
    ctx.log("code variant:", VARIANT)


def consts(nn, na, maxt, steps, sess, faults, crash, leave, mcs, ral, evil="{}", bpn=40):
    return ("CONSTANT RmFirst = %s\nCONSTANT NilH = %s\n" % (
        "TRUE" if VARIANT["RemoveFirst"] else "FALSE", "TRUE" if VARIANT["NilHandles"] else "FALSE")) + _consts(
        nn, na, maxt, steps, sess, faults, crash, leave, mcs, ral, evil, bpn)


def _consts(nn, na, maxt, steps, sess, faults, crash, leave, mcs, ral, evil, bpn):
    return ("CONSTANT NN = %d\nCONSTANT NA = %d\nCONSTANT MaxT = %d\nCONSTANT MaxSteps = %d\nCONSTANT MaxSess = %d\n"
            "CONSTANT MaxFaults = %d\nCONSTANT CrashOK = %s\nCONSTANT LeaveOK = %s\nCONSTANT McsSet = %s\n"
            "CONSTANT RalSet = %s\nCONSTANT Evil = %s\nCONSTANT Bpn = %d\n" % (
                nn, na, maxt, steps, sess, faults, "TRUE" if crash else "FALSE", "TRUE" if leave else "FALSE",
                mcs, ral, evil, bpn))


def trace_cfg():
    return "SPECIFICATION TraceSpec\nINVARIANT Done\n" + consts(NN, NA, MAXT, 0, 0, 0, False, False, "{0}", "{FALSE}", bpn=256)


MC_WORKERS = max(2, min(8, vlib.NCPU // 2))


def exhaustive(ctx, c, what):
    r = vlib.tlc(ctx, "Snapshot", c + "INIT Init\nNEXT Next\nINVARIANT Props\n", timeout=3000, workers=MC_WORKERS)
    if r.violated:
        raise vlib.Inconclusive("the model violates its own monitors (%s, beyond the recorded findings) -- spec error or a "
                                "new defect class; no verdict:\n%s" % (what, r.out[-3000:]))
    return r


def reachable(ctx, c, inv, what):
    """A recorded finding must be reachable in the model: the invariant that denies it must FAIL."""
    r = vlib.tlc(ctx, "Snapshot", c + "INIT Init\nNEXT Next\nINVARIANT %s\n" % inv, timeout=1200, workers=2)
    if not r.violated:
        ctx.log("finding %s is not reachable in the model of this code variant %s" % (what, VARIANT))
        return False
    return True


class Background:
    """The exhaustive model check runs while schedules are generated and executed."""

    def __init__(self, ctx, fn):
        self.res, self.err = None, None
        sub = SubCtx(ctx, "mc")

        def work():
            try:
                self.res = fn(sub)
            except BaseException as e:   # re-raised in join()
                self.err = e
        self.t = threading.Thread(target=work)
        self.t.start()

    def join(self):
        self.t.join()
        if self.err is not None:
            raise self.err
        return self.res


# ----------------------------------------------------------------------------------------- schedules

def flatten(beh):
    """A behaviour is a list of `last` values, each a sequence of one or two records."""
    out = []
    for v in beh:
        for rec in v:
            if rec.get("a") != "init":
                out.append(rec)
    return out


def simulate(ctx, kinds, num, depth, faults=0, crash=False, leave=False, sess=4):
    c = consts(NN, NA, GEN_MAXT, depth, sess, faults, crash, leave, "{0, 60, 100000}", "{FALSE, TRUE}", bpn=40)
    c += "CONSTANT GenKinds = {%s}\nINIT GenInit\nNEXT GenNext\n" % ", ".join(str(k) for k in kinds)
    _, behs = vlib.simulate_schedules(ctx, "Gen_Snapshot", c, num, int(depth * 2.6) + 4, timeout=1800)
    res = []
    for b in behs:
        s = flatten(b)
        if len(s) >= 3:
            res.append(s)
    return res


def is_up(steps):
    up = False
    for st in steps:
        if st["a"] == "started":
            up = True
        elif st["a"] in ("shutdown", "crash"):
            up = False
    return up


def feed(ty, ms, t=0):
    return {"a": "feed", "ty": ty, "ms": ms, "t": t, "fail": 0}


def close_session(steps):
    """Ends a schedule with a clean shutdown and a restart (the observation for C10/C12/C13)."""
    steps = list(steps)
    if is_up(steps):
        steps.append({"a": "shutdown", "fail": 0})
    if steps and steps[-1]["a"] != "started":
        steps.append({"a": "started"})
    return steps


def mk(sid, steps, mcs, ral, cls, tcls, cid):
    return {"id": sid, "cfg": {"mcs": mcs, "ral": ral, "nn": NN, "na": NA, "maxt": MAXT, "cls": cls, "tcls": tcls, "cid": cid},
            "steps": steps}


# ----------------------------------------------------------------------------------------- execution

class SubCtx:
    """Per-thread view of the check context (vlib.tlc numbers its directories through ctx.ntlc)."""

    def __init__(self, ctx, name):
        self.prop, self.tier, self.seed = ctx.prop, ctx.tier, ctx.seed
        self.scratch = ctx.sub(name)
        self.ntlc = 0
        self._ctx = ctx

    def sub(self, name):
        p = os.path.join(self.scratch, name)
        os.makedirs(p, exist_ok=True)
        return p

    def log(self, *a):
        self._ctx.log(*a)

    def thorough(self):
        return self.tier == "thorough"


_seq = [0]
_seq_lock = threading.Lock()


def _next():
    with _seq_lock:
        _seq[0] += 1
        return _seq[0]


def run_chunk(ctx, binary, scheds, tag):
    """Driver (child processes inside) + trace validation of one chunk.  Returns (report, panics text)."""
    sub = SubCtx(ctx, "chunk-%s-%d" % (tag, _next()))
    sp = os.path.join(sub.scratch, "sched.ndjson")
    tp = os.path.join(sub.scratch, "trace.ndjson")
    with open(sp, "w") as f:
        for s in scheds:
            f.write(json.dumps(s, separators=(",", ":")) + "\n")
    work = os.path.join(sub.scratch, "work")
    rc, out = vlib.run_driver(sub, binary, ["-mode", "run", "-in", sp, "-out", tp, "-work", work], timeout=3000)
    shutil.rmtree(work, ignore_errors=True)
    if rc != 0:
        raise vlib.Inconclusive("snapshot driver failed rc=%d:\n%s" % (rc, out[-3000:]))
    panics = ""
    if os.path.exists(tp + ".panics"):
        panics = open(tp + ".panics").read().strip()
    rep = vlib.validate(sub, "Trace_Snapshot", trace_cfg(), tp, timeout=3000)
    rep.path = tp
    return rep, panics


def run_all(ctx, binary, scheds, tag, par=None):
    """Splits the schedules over parallel driver+validator pairs.  Returns a merged summary."""
    par = par or max(2, min(8, vlib.NCPU // 2))
    n = max(1, min(par, (len(scheds) + 3) // 4))
    chunks = [scheds[i::n] for i in range(n)]
    with ThreadPoolExecutor(max_workers=n) as ex:
        futs = [ex.submit(run_chunk, ctx, binary, ch, tag) for ch in chunks if ch]
        results = [f.result() for f in futs]
    summ = {"traces": 0, "lines": 0, "diverged": [], "monitors": [], "panics": [], "ops": 0, "crashpoints": 0,
            "restarts": 0, "faults": 0, "finals": {}, "opcount": {}}
    for rep, panics in results:
        summ["traces"] += rep.traces
        summ["lines"] += rep.lines
        summ["diverged"] += rep.diverged
        summ["monitors"] += rep.monitors
        if panics:
            summ["panics"] += panics.splitlines()
        cur, step = None, -1
        for ln in vlib.read_ndjson(rep.path):
            a = ln["act"]["a"]
            if a == "reset":
                cur, step = ln["act"]["id"], -1
                summ["opcount"][cur] = []
            elif a == "op":
                if ln["act"]["op"] != "bufw":
                    summ["ops"] += 1
                    if summ["opcount"][cur]:
                        summ["opcount"][cur][-1][1] += 1
                    if not ln["act"]["ok"]:
                        summ["faults"] += 1
                summ["crashpoints"] += 1
            elif a == "started":
                summ["restarts"] += 1
                summ["finals"][cur] = ln["obs"].get("st")
            if a in ("feed", "tick", "leave", "shutdown", "started", "wit", "adv", "crash", "burst"):
                step += 1
                if a in ("feed", "tick", "leave", "shutdown"):
                    summ["opcount"][cur].append([step, 0])
    return summ


def confirm(ctx, binary, summ, by_id, pre, limit=3):
    """Monitor reports of this property -> violations confirmed by a second, independent execution
    (all candidates re-executed from scratch in one batch)."""
    seen, cands = {}, []
    for (tid, line, clauses, tags) in summ["monitors"]:
        mine = sorted(c for c in clauses if c.startswith(pre))
        if not mine:
            continue
        key = ",".join(mine) + "|" + ",".join(sorted(tags))
        seen[key] = seen.get(key, 0) + 1
        if seen[key] <= limit:
            cands.append((tid, line, mine, sorted(tags)))
    viol = []
    if not cands:
        return viol, seen
    ids = sorted(set(c[0] for c in cands))
    rep2, panics = run_chunk(ctx, binary, [by_id[i] for i in ids], "re")
    for (tid, line, mine, tags) in cands:
        again = [m for m in rep2.monitors if m[0] == tid and set(m[2]) & set(mine) and sorted(m[3]) == tags]
        if again:
            v = {"clauses": mine, "tags": tags, "schedule": by_id[tid], "trace_line": line,
                 "tag_meaning": {t: TAG_TEXT.get(t, "") for t in tags}}
            pl = [p for p in panics.splitlines() if p.startswith("schedule id %d:" % tid)]
            if pl:
                v["panic"] = pl[0]
            viol.append(v)
        else:
            ctx.log("report %s on trace %d not reproduced; ignored" % (mine, tid))
    return viol, seen


def finish(ctx, level, mc, reach, summ, scheds, viol, seen, rule, extra, assume):
    new, known = vlib.classify(ctx.prop, viol)
    cov = {
        "states": mc.distinct if mc else 1, "transitions": mc.generated if mc else 1, "exhaustive": bool(mc),
        "findings_reachable_in_model": reach,
        "traces_validated_against_impl": summ["traces"], "trace_lines": summ["lines"],
        "divergences": len(summ["diverged"]),
        "file_operations_observed": summ["ops"], "crash_points_checked": summ["crashpoints"],
        "restarts_observed": summ["restarts"], "faults_injected": summ["faults"], "panics": len(summ["panics"]),
        "monitor_reports_by_signature": seen,
        "distinct_nontrivial": len(set(json.dumps(s["steps"]) + str(s["cfg"]["mcs"]) + s["cfg"]["cls"] for s in scheds)),
        "rule": rule,
        "samples": [scheds[0]["steps"][:10]] if scheds else [],
    }
    cov.update(extra)
    if summ["panics"]:
        cov["panic_samples"] = summ["panics"][:3]
    vlib.finish(ctx, level, cov, assume, new, known)


ASSUME = ["process-crash semantics: data handed to the OS by write() survives, the bufio buffer is lost; no torn writes",
          "events are fed one at a time (the snapshot keeps up with the stream); the bufio buffer (4096 bytes) never overflows "
          "between two flushes in the executed histories",
          "member updates do not change a member's address (memberlist reports an address change as a join)",
          "serf's Lamport clock is at least 1 when the snapshotter reads it (Serf.Create increments it right after NewSnapshotter)"]


def load_replay(replay):
    v = json.load(open(replay))
    return v["schedule"]


# ----------------------------------------------------------------------------------------- C10

def run(ctx, replay=None):
    detect_variant(ctx)
    binary = build(ctx)
    if replay:
        return run_replay(ctx, binary, replay)
    return {"C10": run_c10, "C11": run_c11, "C12": run_c12, "C13": run_c13}[ctx.prop](ctx, binary)


def run_replay(ctx, binary, replay):
    s = load_replay(replay)
    summ = run_all(ctx, binary, [s], "replay", par=1)
    viol, seen = confirm(ctx, binary, summ, {s["id"]: s}, PREFIX[ctx.prop])
    finish(ctx, "model_checking", None, {}, summ, [s], viol, seen, "replay of one schedule", {}, ASSUME)


def variants(rng, base, sid0, thresholds, rals, classes):
    """One base history under several thresholds (same concretization: cid)."""
    out = []
    for i, steps in enumerate(base):
        cls = classes[i % len(classes)]
        tcls = "wide" if i % 2 == 0 else "small"
        ral = rals[i % len(rals)]
        for j, mcs in enumerate(thresholds):
            out.append(mk(sid0 + i * len(thresholds) + j, steps, mcs, ral, cls, tcls, sid0 + i))
    return out


def run_c10(ctx, binary):
    th = ctx.thorough()
    bg = Background(ctx, lambda c: (
        exhaustive(c, consts(2, 1 if th else 2, 1, 6 if th else 5, 2, 0, False, False, "{0, 60, 100000}", "{FALSE}"), "C10"),
        {"nl_name": reachable(c, consts(2, 1, 1, 4, 2, 0, False, False, "{100000}", "{FALSE}", evil="{2}"),
                              "NoC10rejoin", "C10 newline name")}))
    num, depth = (400, 40) if th else (48, 36)
    base = [close_session(s) for s in simulate(ctx, [1, 1, 2, 3, 4, 5, 6, 7, 8, 10], num, depth)]
    rng = random.Random(ctx.seed)
    scheds = variants(rng, base, 0, THRESHOLDS, [False, True], ["hostile", "hostile", "plain"])
    nl = [s for s in base if any(st["a"] == "feed" and st["ty"] == 1 for st in s)][: (40 if th else 8)]
    scheds += variants(rng, nl, 100000, [0, 128 * 1024], [False, True], ["newline"])
    summ = run_all(ctx, binary, scheds, "c10")
    by_id = {s["id"]: s for s in scheds}
    viol, seen = confirm(ctx, binary, summ, by_id, "C10_")
    # the recovered state must not depend on the compaction threshold
    groups = {}
    for s in scheds:
        groups.setdefault(s["cfg"]["cid"], []).append(s["id"])
    flagged = set(m[0] for m in summ["monitors"] if any(c.startswith("C10_") for c in m[2]))
    differ = 0
    for cid, ids in groups.items():
        finals = [json.dumps(summ["finals"].get(i), sort_keys=True) for i in ids]
        if len(set(finals)) > 1:
            differ += 1
            if not (set(ids) & flagged):
                raise vlib.Inconclusive("history %d recovers different states under different thresholds but no C10 monitor "
                                        "fired (machinery error): %s" % (cid, finals))
    mc, reach = bg.join()
    finish(ctx, "model_checking", mc, reach, summ, scheds, viol, seen,
           "TLC -simulate behaviours of Snapshot (member/user/query events, clock advances, ticks, time advances, "
           "shutdown+restart) executed on the real Snapshotter under minCompactSize 0/300/128K with the same concrete names; "
           "every restart state is compared by TLC with the state the inputs imply; distinct = distinct (history, threshold, "
           "name class)",
           {"model_constants": ("exhaustive: 2 names x 1 address, times 0..1, <=6 inputs, 2 sessions, thresholds {0,60,never}" if th else
                                "exhaustive: 2 names x 2 addresses, times 0..1, <=5 inputs, 2 sessions, thresholds {0,60,never}") +
                               " with 40 bytes/node; simulation: 3 names x 3 addresses, times 0..6 (0..24 with the appended inputs) mapped "
                               "to 64-bit values",
            "evaluations": summ["restarts"], "histories_differing_across_thresholds": differ,
            "newline_class_schedules": len([s for s in scheds if s["cfg"]["cls"] == "newline"])},
           ASSUME)


# ----------------------------------------------------------------------------------------- C11

def run_c11(ctx, binary):
    th = ctx.thorough()
    bg = Background(ctx, lambda c: (
        exhaustive(c, consts(2, 2 if th else 1, 2 if th else 1, 4, 3, 0, True, True, "{0, 60, 100000}", "{FALSE, TRUE}"), "C11"),
        {"rm_window": reachable(c, consts(2, 1, 1, 3, 1, 0, False, False, "{0}", "{FALSE}"), "NoC11safe",
                                "C11 remove/rename window")}))
    num, depth = (400, 40) if th else (64, 36)
    base = simulate(ctx, [1, 2, 3, 4, 5, 6, 7, 8, 9, 10, 11, 12], num, depth, crash=True, leave=True, sess=4)
    base = [close_session(s) for s in base]
    scheds = []
    for i, steps in enumerate(base):
        scheds.append(mk(i, steps, THRESHOLDS[i % 3], (i // 3) % 2 == 1, "hostile" if i % 4 else "plain",
                         "wide" if i % 2 else "small", i))
    summ = run_all(ctx, binary, scheds, "c11")
    viol, seen = confirm(ctx, binary, summ, {s["id"]: s for s in scheds}, "C11_")
    mc, reach = bg.join()
    finish(ctx, "fault_enumeration", mc, reach, summ, scheds, viol, seen,
           "every operation boundary of every executed history is a crash point: the directory image captured there is replayed "
           "by a fresh real NewSnapshotter and judged by the CrashSafe monitor; histories also contain explicit crashes followed "
           "by a restart from the crash image; distinct = distinct (history, threshold)",
           {"model_constants": "exhaustive: 2 names x %d addresses, times 0..%d, <=%d inputs, 3 sessions, crash after any "
                               "operation, leave allowed, both rejoin-after-leave settings, thresholds {0,60,never}" % (2 if th else 1, 2 if th else 1, 4),
            "evaluations": summ["crashpoints"]}, ASSUME)


# ----------------------------------------------------------------------------------------- C12

SUFFIX = [{"a": "adv", "d": 301}, feed(1, [[1, 1]]), feed(6, [], MAXT), feed(7, [], MAXT), {"a": "tick", "fail": 0}]


def run_c12(ctx, binary):
    th = ctx.thorough()
    bg = Background(ctx, lambda c: (
        exhaustive(c, consts(2, 2 if th else 1, 1, 4, 2, 1, False, False, "{0, 60, 100000}", "{FALSE}"), "C12"),
        {"swap_fault": reachable(c, consts(2, 1, 1, 3, 1, 1, False, False, "{0}", "{FALSE}"), "NoC12panic",
                                 "C12 nil handles after a failed swap")}))
    num, depth = (60, 24) if th else (10, 16)
    base = simulate(ctx, [1, 2, 3, 4, 5, 6, 7, 8], num, depth, sess=1)
    rng = random.Random(ctx.seed)
    bases = []
    for i, steps in enumerate(base):
        steps = [st for st in steps if st["a"] != "shutdown"]
        bases.append(mk(i, close_session(steps + SUFFIX), [0, 300, 0, 128 * 1024][i % 4], False,
                        "hostile" if i % 3 else "plain", "small", i))
    # pass 1: fault-free runs tell how many file operations each input performs
    summ0 = run_all(ctx, binary, bases, "c12base")
    points = []
    for s in bases:
        for (step, nops) in summ0["opcount"].get(s["id"], []):
            for k in range(1, nops + 1):
                points.append((s, step, k))
    total_points = len(points)
    cap = 4000 if th else 420
    if len(points) > cap:
        rng.shuffle(points)
        points = points[:cap]
    scheds = []
    for n, (s, step, k) in enumerate(points):
        steps = [dict(st) for st in s["steps"]]
        steps[step]["fail"] = k
        scheds.append(mk(1000 + n, steps, s["cfg"]["mcs"], False, s["cfg"]["cls"], s["cfg"]["tcls"], s["cfg"]["cid"]))
    summ = run_all(ctx, binary, scheds, "c12")
    viol, seen = confirm(ctx, binary, summ, {s["id"]: s for s in scheds}, "C12_")
    mc, reach = bg.join()
    finish(ctx, "fault_enumeration", mc, reach, summ, scheds, viol, seen,
           "for each executed base history, each numbered file operation of each input is failed once (one run per injection "
           "point, child process per batch); after the faulting input the history continues, the shim clock passes the 30 s retry "
           "interval, later joins/clock changes are fed, then shutdown and restart; distinct = distinct (history, injection point)",
           {"model_constants": "exhaustive: 2 names x %d address(es), times 0..1, <=4 inputs, one fault at any operation of any "
                               "input, thresholds {0,60,never}" % (2 if th else 1),
            "evaluations": summ["faults"], "injection_points_total": total_points, "injection_points_run": len(scheds),
            "base_histories": len(bases)}, ASSUME)


# ----------------------------------------------------------------------------------------- C13

def run_c13(ctx, binary):
    th = ctx.thorough()
    bg = Background(ctx, lambda c: exhaustive(
        c, consts(2, 1, 2 if th else 1, 5, 3 if th else 2, 0, False, True, "{0, 60, 100000}", "{FALSE, TRUE}"), "C13"))
    num, depth = (300, 36) if th else (48, 30)
    base = simulate(ctx, [1, 1, 2, 3, 4, 5, 6, 7, 8, 9, 9, 10], num, depth, leave=True, sess=3)
    rng = random.Random(ctx.seed)
    scheds = []
    for i, steps in enumerate(base):
        steps = list(steps)
        if not any(st["a"] == "leave" for st in steps) and is_up(steps):
            # a leave somewhere in the last session, events and ticks may follow it
            last_start = max(j for j, st in enumerate(steps) if st["a"] == "started")
            steps.insert(rng.randint(last_start + 1, len(steps)), {"a": "leave", "fail": 0})
        if i % 3 != 2 and is_up(steps) and any(st["a"] == "leave" for st in steps):
            # clock changes after the leave: the ticks keep appending (and compacting) behind the `leave` line
            for v in range(GEN_MAXT + 1, MAXT + 1):
                steps += [{"a": "wit", "v": v}, {"a": "tick", "fail": 0}]
        if is_up(steps) and any(st["a"] == "leave" for st in steps[max(j for j, st in enumerate(steps) if st["a"] == "started"):]):
            # a burst of member events pushed without waiting, then the shutdown at once: some are still buffered in
            # streamCh and are seen by the drain loop of the shutdown branch instead of the main loop
            steps.append({"a": "burst", "evs": [{"ty": 1 if k % 5 else 3, "ms": [[1 + k % NN, 1 + (k // NN) % NA]], "t": 0}
                                                for k in range(BURST)]})
        steps = close_session(steps)
        if i % 2 == 0:      # a further session appends after the `leave` line
            steps += [feed(1, [[1 + i % NN, 1]]), feed(6, [], 1 + i % GEN_MAXT), {"a": "tick", "fail": 0}]
            steps = close_session(steps)
        scheds.append(mk(i, steps, THRESHOLDS[i % 3], (i // 3) % 2 == 0, "hostile" if i % 4 else "plain",
                         "wide" if i % 2 else "small", i))
    summ = run_all(ctx, binary, scheds, "c13")
    viol, seen = confirm(ctx, binary, summ, {s["id"]: s for s in scheds}, "C13_")
    leaves = sum(1 for s in scheds for st in s["steps"] if st["a"] == "leave")
    mc = bg.join()
    finish(ctx, "model_checking", mc, {}, summ, scheds, viol, seen,
           "TLC -simulate behaviours with a graceful leave (events, ticks, clock advances and forced compactions before and "
           "after it; then a burst of 300 member events pushed without waiting and the shutdown at once, so that the "
           "shutdown drain loop sees buffered events), shutdown, restart, and for half of them a further session appending "
           "after the leave line; both "
           "rejoin-after-leave settings and thresholds 0/300/128K; distinct = distinct (history, threshold)",
           {"model_constants": "exhaustive: 2 names, times 0..%d, <=%d inputs, %d sessions, both rejoin-after-leave settings, "
                               "thresholds {0,60,never}" % (2 if th else 1, 5, 3 if th else 2),
            "evaluations": leaves}, ASSUME)
