"""C10, C11, C12, C13: the Snapshotter (spec/Snapshot.tla, harness/cmd/snapshot, hooks/serf_snapshot)."""
PROPS = ["C10", "C11", "C12", "C13"]
_TECH = ('TLA+ spec (Snapshot.tla: the snapshotter as a sequential machine over explicit file-system steps) + TLC exhaustive '
         'check of the property monitors; TLC-simulated schedules replayed on the real serf.Snapshotter through a file-operation '
         'shim generated from the current source; TLC trace validation of every operation boundary with the monitors evaluated '
         'on observed state')
_TRUST = ('Trusts TLC, the source rewriter (harness/cmd/snaprewrite: redirects os.OpenFile/Remove/Rename, *os.File, bufio.Writer, '
          'time.Now/NewTicker of serf/snapshot.go to a logging shim; exits inconclusive when the file uses a facility it does not '
          'know), the shim forwarding to the real calls, and process-crash semantics (what was handed to the OS survives, the '
          'bufio buffer does not; no torn writes, no power loss).')
# id: (level, what the check establishes, trusted base / assumptions, technique, DESIGN.md section)
CLAIMS = {
    'C10': (
        'model_checking',
        'TLC checks exhaustively on spec/Snapshot.tla (all histories of joins/leaves/failures/updates/reaps, user and query '
        'times, clock advances, ticks, time advances, shutdown+restart, up to the stated bound, for compaction thresholds '
        '{0, small, never}) that a clean restart recovers exactly the rejoin set with last addresses and the three clocks '
        'the inputs imply; TLC-simulated histories (length <= 40) are executed on the real Snapshotter with hostile member '
        'names (spaces, tabs, "alive: x" look-alikes, UTF-8, 100-byte names), IPv4/IPv6/empty addresses and 64-bit Lamport '
        'times, each under minCompactSize 0 / 300 / 128K, the state recovered by a second real NewSnapshotter is compared '
        'by TLC with the expected one and across thresholds; each history is also re-run with minCompactSize placed (from the '
        'log sizes of its uncompacted run) so that a chosen alive / not-alive / clock line is exactly the one that crosses '
        'the threshold; every snapshot image taken after a shutdown or crash (and, for every fourth history, after every write) is '
        'also cut at every byte offset inside its last line and each cut must replay to the state of the whole-lines image '
        '(a torn tail is not a recorded line); a separate input class with a member name containing '
        '"\\nleave\\n" is run and reported (tag nl_name).',
        _TRUST, _TECH, '5 C10',
    ),
    'C11': (
        'fault_enumeration',
        'Every file-system operation boundary (open, write, sync, close, remove, rename, reopen; also every buffered line) of '
        'every executed history is a crash point: the directory image captured there is replayed by a fresh real '
        'NewSnapshotter and TLC checks that the recovered state is one the snapshotter held in memory at or after the last '
        'moment all its data was with the OS, and that the snapshot file exists once something was written; the model is '
        'checked exhaustively with a crash possible after every operation and restarts from the crash image; a directed class '
        'crashes INSIDE a compaction (after the write / sync / close of the temp file), restarts on the image with the stale '
        'temp file, removes a member, compacts again and restarts (second generation); a torn-tail class cuts snapshot images '
        '(at shutdowns, crashes and, for a quarter of the histories, after every write) at every byte offset inside their '
        'last line and requires the real replay of each cut to equal the replay of the whole-lines image.',
        _TRUST, _TECH, '5 C11',
    ),
    'C12': (
        'fault_enumeration',
        'For executed histories, every single-fault injection point (each numbered file operation of each input: open of the '
        'temp file, writes, syncs, closes, remove, rename, reopen) is run in a child process: no panic, every fed event is '
        'forwarded, and after the fault the changes made later are what a restart recovers (the shim clock is moved past the '
        '30 s retry interval); a directed class makes every rename (or sync) of the temp file fail during one compacting input '
        '(fault window), lets the recorded members depart and judges what the retry compaction installs; TLC checks the '
        'single-fault case on the model exhaustively with one fault anywhere.',
        _TRUST, _TECH, '5 C12',
    ),
    'C13': (
        'model_checking',
        'TLC checks exhaustively on the model, for both settings of rejoin-after-leave and thresholds {0, small, never}, that '
        'after a graceful leave and shutdown a restart re-joins nobody (disabled) / exactly the set known at the leave '
        '(enabled), with events, ticks and forced compactions before and after the leave and a further session appending '
        'after the leave line; simulated histories with a leave are executed on the real Snapshotter and validated by TLC, '
        'including bursts of events still buffered at shutdown and histories whose threshold is placed so that the 6-byte '
        'leave line itself triggers the compaction; Serf-level histories (TLC-simulated: peer joins / failures / leaves, '
        'restarts from the snapshot) issue the leave through the real Serf.Leave of a quiet Serf node with a snapshot file, '
        'with some peer alive, all failed, all left, or peers known only from the snapshot.',
        _TRUST, _TECH, '5 C13',
    ),
}
import json
import os
import random
import re
import shutil
import threading
import time
from concurrent.futures import ThreadPoolExecutor

import vlib

NN, NA, MAXT = 3, 3, 24     # names, addresses, abstract times of the traces
BURST = 300                   # events of a burst pushed right before a shutdown (C13)
GEN_MAXT = 6                  # times the generator uses; MAXT beyond it is for inputs the family appends
PREFIX = {"C10": "C10_", "C11": "C11_", "C12": "C12_", "C13": "C13_"}
TAG_TEXT = {"rm_window": "crash between the remove of the old snapshot and the rename of the new one (compact())",
            "swap_fault": "the failed operation was the remove/rename/reopen of compact()'s swap",
            "nl_name": "a member name contains \"\\nleave\\n\""}
THRESHOLDS = [0, 300, 128 * 1024]


# ----------------------------------------------------------------------------------------- build

def build(ctx):
    """Rewrites serf/snapshot.go of the CURRENT tree ($VERIF_REPO) and builds the driver against it."""
    tool = os.path.join(ctx.scratch, "bin-snaprewrite")
    rc, o = vlib.run(["go", "build", "-o", tool, "./cmd/snaprewrite"], cwd=vlib.HARNESS, env=vlib.goenv(), timeout=600)
    if rc != 0:
        raise vlib.Inconclusive("snaprewrite build failed:\n" + o[-3000:])
    src = os.path.join(vlib.REPO, "serf", "snapshot.go")
    dst = os.path.join(ctx.sub("rewritten"), "snapshot.go")
    rc, o = vlib.run([tool, "-in", src, "-out", dst], timeout=60)
    if rc != 0:
        raise vlib.Inconclusive("cannot intercept the file operations of serf/snapshot.go (refactored?): " + o[-2000:])
    ctx.log("snaprewrite:", o.strip())
    ov = vlib.overlay_for(ctx, hook_pkgs=[("serf", "serf_snapshot")], replaced={"serf/snapshot.go": dst})
    return vlib.go_build(ctx, "snapshot", overlay=ov)


# ----------------------------------------------------------------------------------------- TLC configs

VARIANT = {"RemoveFirst": True, "NilHandles": True}


def detect_variant(ctx):
    """Which compact() the tree contains: the model has both the code as found (remove-then-rename, handles set to
    nil before the swap) and the repaired one (reports/snapshot-fix-1/2.diff).  This only selects the model the traces
    are compared with; a wrong guess shows up as divergences, never as a verdict (the monitors do not use the model)."""
    src = open(os.path.join(vlib.REPO, "serf", "snapshot.go")).read()
    m = re.search(r"func \(s \*Snapshotter\) compact\(\).*?\n}\n", src, re.S)
    body = m.group(0) if m else src
    VARIANT["RemoveFirst"] = "os.Remove(" in body
    VARIANT["NilHandles"] = bool(re.search(r"s\.buffered\s*=\s*nil", body))
    ctx.log("code variant:", VARIANT)


def consts(nn, na, maxt, steps, sess, faults, crash, leave, mcs, ral, evil="{}", bpn=40):
    return ("CONSTANT RmFirst = %s\nCONSTANT NilH = %s\n" % (
        "TRUE" if VARIANT["RemoveFirst"] else "FALSE", "TRUE" if VARIANT["NilHandles"] else "FALSE")) + _consts(
        nn, na, maxt, steps, sess, faults, crash, leave, mcs, ral, evil, bpn)


def _consts(nn, na, maxt, steps, sess, faults, crash, leave, mcs, ral, evil, bpn):
    return ("CONSTANT NN = %d\nCONSTANT NA = %d\nCONSTANT MaxT = %d\nCONSTANT MaxSteps = %d\nCONSTANT MaxSess = %d\n"
            "CONSTANT MaxFaults = %d\nCONSTANT CrashOK = %s\nCONSTANT LeaveOK = %s\nCONSTANT McsSet = %s\n"
            "CONSTANT RalSet = %s\nCONSTANT Evil = %s\nCONSTANT Bpn = %d\n" % (
                nn, na, maxt, steps, sess, faults, "TRUE" if crash else "FALSE", "TRUE" if leave else "FALSE",
                mcs, ral, evil, bpn))


def trace_cfg():
    return "SPECIFICATION TraceSpec\nINVARIANT Done\n" + consts(NN, NA, MAXT, 0, 0, 0, False, False, "{0}", "{FALSE}", bpn=256)


MC_WORKERS = max(2, min(8, vlib.NCPU // 2))


def exhaustive(ctx, c, what):
    r = vlib.tlc(ctx, "Snapshot", c + "INIT Init\nNEXT Next\nINVARIANT Props\n", timeout=3000, workers=MC_WORKERS)
    if r.violated:
        raise vlib.Inconclusive("the model violates its own monitors (%s, beyond the recorded findings) -- spec error or a "
                                "new defect class; no verdict:\n%s" % (what, r.out[-3000:]))
    return r


def reachable(ctx, c, inv, what):
    """A recorded finding must be reachable in the model: the invariant that denies it must FAIL."""
    r = vlib.tlc(ctx, "Snapshot", c + "INIT Init\nNEXT Next\nINVARIANT %s\n" % inv, timeout=1200, workers=2)
    if not r.violated:
        ctx.log("finding %s is not reachable in the model of this code variant %s" % (what, VARIANT))
        return False
    return True


class Background:
    """The exhaustive model check runs while schedules are generated and executed."""

    def __init__(self, ctx, fn):
        self.res, self.err = None, None
        sub = SubCtx(ctx, "mc")

        def work():
            try:
                self.res = fn(sub)
            except BaseException as e:   # re-raised in join()
                self.err = e
        self.t = threading.Thread(target=work)
        self.t.start()

    def join(self):
        self.t.join()
        if self.err is not None:
            raise self.err
        return self.res


# ----------------------------------------------------------------------------------------- schedules

def flatten(beh):
    """A behaviour is a list of `last` values, each a sequence of one or two records."""
    out = []
    for v in beh:
        for rec in v:
            if rec.get("a") != "init":
                out.append(rec)
    return out


def simulate(ctx, kinds, num, depth, faults=0, crash=False, leave=False, sess=4):
    c = consts(NN, NA, GEN_MAXT, depth, sess, faults, crash, leave, "{0, 60, 100000}", "{FALSE, TRUE}", bpn=40)
    c += "CONSTANT GenKinds = {%s}\nINIT GenInit\nNEXT GenNext\n" % ", ".join(str(k) for k in kinds)
    _, behs = vlib.simulate_schedules(ctx, "Gen_Snapshot", c, num, int(depth * 2.6) + 4, timeout=1800)
    res = []
    for b in behs:
        s = flatten(b)
        if len(s) >= 3:
            res.append(s)
    return res


def is_up(steps):
    up = False
    for st in steps:
        if st["a"] == "started":
            up = True
        elif st["a"] in ("shutdown", "crash"):
            up = False
    return up


def feed(ty, ms, t=0):
    return {"a": "feed", "ty": ty, "ms": ms, "t": t, "fail": 0}


def close_session(steps):
    """Ends a schedule with a clean shutdown and a restart (the observation for C10/C12/C13)."""
    steps = list(steps)
    if is_up(steps):
        steps.append({"a": "shutdown", "fail": 0})
    if steps and steps[-1]["a"] != "started":
        steps.append({"a": "started"})
    return steps


def mk(sid, steps, mcs, ral, cls, tcls, cid, torn=None):
    """torn: torn-tail crash class (0 none, 1 at shutdowns and crashes, 2 also after every write of the snapshot);
    default: 2 for every fourth schedule, 1 otherwise, never for the newline class (its lines are not lines)."""
    if torn is None:
        torn = 0 if cls == "newline" else (2 if sid % 4 == 1 else 1)
    return {"id": sid, "cfg": {"mcs": mcs, "ral": ral, "nn": NN, "na": NA, "maxt": MAXT, "cls": cls, "tcls": tcls, "cid": cid,
                               "torn": torn},
            "steps": steps}


def serf_level(ctx, num, depth):
    """Serf-level histories (C13): TLC-simulated behaviours of Gen_SnapSerf, each ending with Leave, Shutdown, start."""
    c = "CONSTANT NP = %d\nCONSTANT MaxSteps = %d\nINIT GenInit\nNEXT GenNext\n" % (NN - 1, depth)
    _, behs = vlib.simulate_schedules(ctx, "Gen_SnapSerf", c, num, int(depth * 2.6) + 4, timeout=900)
    # the history the seeded change needs is always there: peers known from the snapshot, none alive now, Leave
    behs = [[{"a": "started"}, {"a": "pjoin", "x": 2}, {"a": "shutdown"}, {"a": "started"}],
            [{"a": "started"}, {"a": "pjoin", "x": 2}, {"a": "pjoin", "x": 3}, {"a": "pfail", "x": 2}, {"a": "pleave", "x": 3}],
            [{"a": "started"}]] + [[r for r in b if r.get("a") != "init"] for b in behs]
    out, seen = [], set()
    for i, steps in enumerate(behs):
        steps = [dict(st) for st in steps]
        if not steps or steps[0]["a"] != "started":
            continue
        up, left = False, False
        for st in steps:
            if st["a"] == "started":
                up, left = True, False
            elif st["a"] == "shutdown":
                up = False
            elif st["a"] == "leave":
                left = True
        if not up:
            steps.append({"a": "started"})
            left = False
        if not left:
            steps.append({"a": "leave"})
        steps += [{"a": "shutdown"}, {"a": "started"}]
        key = json.dumps(steps)
        if key in seen:
            continue
        seen.add(key)
        for ral in (False, True):
            s = mk(500000 + len(out), steps, 128 * 1024, ral, "hostile" if i % 3 == 1 else "plain", "small", 500000 + i, torn=0)
            s["cfg"]["serf"] = True
            out.append(s)
    return out


# ----------------------------------------------------------------------------------------- execution

class SubCtx:
    """Per-thread view of the check context (vlib.tlc numbers its directories through ctx.ntlc)."""

    def __init__(self, ctx, name):
        self.prop, self.tier, self.seed = ctx.prop, ctx.tier, ctx.seed
        self.scratch = ctx.sub(name)
        self.ntlc = 0
        self._ctx = ctx

    def sub(self, name):
        p = os.path.join(self.scratch, name)
        os.makedirs(p, exist_ok=True)
        return p

    def log(self, *a):
        self._ctx.log(*a)

    def thorough(self):
        return self.tier == "thorough"


_seq = [0]
_seq_lock = threading.Lock()


def _next():
    with _seq_lock:
        _seq[0] += 1
        return _seq[0]


class _NoReport:
    """Stands for a TraceReport when a chunk is only executed (learning pass), not validated."""
    traces = lines = 0
    diverged = monitors = ()


def run_chunk(ctx, binary, scheds, tag, validate=True):
    """Driver (child processes inside) + trace validation of one chunk.  Returns (report, panics text)."""
    sub = SubCtx(ctx, "chunk-%s-%d" % (tag, _next()))
    sp = os.path.join(sub.scratch, "sched.ndjson")
    tp = os.path.join(sub.scratch, "trace.ndjson")
    with open(sp, "w") as f:
        for s in scheds:
            f.write(json.dumps(s, separators=(",", ":")) + "\n")
    work = os.path.join(sub.scratch, "work")
    rc, out = vlib.run_driver(sub, binary, ["-mode", "run", "-in", sp, "-out", tp, "-work", work], timeout=3000)
    shutil.rmtree(work, ignore_errors=True)
    if rc != 0:
        raise vlib.Inconclusive("snapshot driver failed rc=%d:\n%s" % (rc, out[-3000:]))
    panics = ""
    if os.path.exists(tp + ".panics"):
        panics = open(tp + ".panics").read().strip()
    if validate:
        rep = vlib.validate(sub, "Trace_Snapshot", trace_cfg(), tp, timeout=3000)
    else:
        rep = _NoReport()
        rep.diverged, rep.monitors = [], []
    rep.path = tp
    return rep, panics


def run_all(ctx, binary, scheds, tag, par=None, validate=True):
    """Splits the schedules over parallel driver+validator pairs.  Returns a merged summary.
    validate=False: a learning pass (executed on the real code, read by the family, judged by nobody)."""
    par = par or max(2, min(8, vlib.NCPU // 2))
    n = max(1, min(par, (len(scheds) + 3) // 4))
    chunks = [scheds[i::n] for i in range(n)]
    with ThreadPoolExecutor(max_workers=n) as ex:
        futs = [ex.submit(run_chunk, ctx, binary, ch, tag, validate) for ch in chunks if ch]
        results = [f.result() for f in futs]
    summ = {"traces": 0, "lines": 0, "diverged": [], "monitors": [], "panics": [], "ops": 0, "crashpoints": 0,
            "restarts": 0, "faults": 0, "finals": {}, "opcount": {}, "sizes": {}}
    for rep, panics in results:
        summ["traces"] += rep.traces
        summ["lines"] += rep.lines
        summ["diverged"] += rep.diverged
        summ["monitors"] += rep.monitors
        if panics:
            summ["panics"] += panics.splitlines()
        cur, step = None, -1
        off, alive = 0, []
        for ln in vlib.read_ndjson(rep.path):
            a = ln["act"]["a"]
            if a == "reset":
                cur, step = ln["act"]["id"], -1
                summ["opcount"][cur] = []
                summ["sizes"][cur] = []
                off, alive = 0, []
            elif a == "op":
                if ln["act"]["f"] == "tmp" and summ["sizes"][cur]:
                    summ["sizes"][cur][-1]["compact"] = True
                if ln["act"]["op"] != "bufw":
                    summ["ops"] += 1
                    if summ["opcount"][cur]:
                        summ["opcount"][cur][-1][1] += 1
                    if not ln["act"]["ok"]:
                        summ["faults"] += 1
                summ["crashpoints"] += 1
            elif a == "started":
                summ["restarts"] += 1
                summ["finals"][cur] = ln["obs"].get("st")
                off, alive = ln["obs"].get("off", 0), (ln["obs"].get("st") or {}).get("alive", [])
            elif a == "done":
                off, alive = ln["obs"]["mem"]["off"], ln["obs"]["mem"]["alive"]
                if summ["sizes"][cur] and summ["sizes"][cur][-1]["after"] is None:
                    summ["sizes"][cur][-1]["after"] = off
                    summ["sizes"][cur][-1]["n_after"] = sum(1 for x in alive if x)
            if a in ("feed", "tick", "leave", "shutdown", "started", "wit", "adv", "crash", "burst") and cur < 500000:
                step += 1
                if a in ("feed", "tick", "leave", "shutdown"):
                    summ["opcount"][cur].append([step, 0])
                    # log size (the snapshotter's offset) before / after the input, members alive, compaction seen
                    summ["sizes"][cur].append({"step": step, "a": a, "ty": ln["act"].get("ty", 0), "before": off, "after": None,
                                               "n": sum(1 for x in alive if x), "n_after": 0, "compact": False})
    return summ


def confirm(ctx, binary, summ, by_id, pre, limit=3):
    """Monitor reports of this property -> violations confirmed by a second, independent execution
    (all candidates re-executed from scratch in one batch)."""
    seen, cands = {}, []
    for (tid, line, clauses, tags) in summ["monitors"]:
        mine = sorted(c for c in clauses if c.startswith(pre))
        if not mine:
            continue
        key = ",".join(mine) + "|" + ",".join(sorted(tags))
        seen[key] = seen.get(key, 0) + 1
        if seen[key] <= limit:
            cands.append((tid, line, mine, sorted(tags)))
    viol = []
    if not cands:
        return viol, seen
    ids = sorted(set(c[0] for c in cands))
    rep2, panics = run_chunk(ctx, binary, [by_id[i] for i in ids], "re")
    for (tid, line, mine, tags) in cands:
        again = [m for m in rep2.monitors if m[0] == tid and set(m[2]) & set(mine) and sorted(m[3]) == tags]
        if again:
            v = {"clauses": mine, "tags": tags, "schedule": by_id[tid], "trace_line": line,
                 "tag_meaning": {t: TAG_TEXT.get(t, "") for t in tags}}
            pl = [p for p in panics.splitlines() if p.startswith("schedule id %d:" % tid)]
            if pl:
                v["panic"] = pl[0]
            viol.append(v)
        else:
            ctx.log("report %s on trace %d not reproduced; ignored" % (mine, tid))
    return viol, seen


def finish(ctx, level, mc, reach, summ, scheds, viol, seen, rule, extra, assume):
    new, known = vlib.classify(ctx.prop, viol)
    cov = {
        "states": mc.distinct if mc else 1, "transitions": mc.generated if mc else 1, "exhaustive": bool(mc),
        "findings_reachable_in_model": reach,
        "traces_validated_against_impl": summ["traces"], "trace_lines": summ["lines"],
        "divergences": len(summ["diverged"]),
        "file_operations_observed": summ["ops"], "crash_points_checked": summ["crashpoints"],
        "restarts_observed": summ["restarts"], "faults_injected": summ["faults"], "panics": len(summ["panics"]),
        "monitor_reports_by_signature": seen,
        "distinct_nontrivial": len(set(json.dumps(s["steps"]) + str(s["cfg"]["mcs"]) + s["cfg"]["cls"] for s in scheds)),
        "rule": rule,
        "samples": [scheds[0]["steps"][:10]] if scheds else [],
    }
    cov.update(extra)
    if summ["panics"]:
        cov["panic_samples"] = summ["panics"][:3]
    vlib.finish(ctx, level, cov, assume, new, known)


ASSUME = ["process-crash semantics: data handed to the OS by write() survives, the bufio buffer is lost; no torn writes",
          "events are fed one at a time (the snapshot keeps up with the stream); the bufio buffer (4096 bytes) never overflows "
          "between two flushes in the executed histories",
          "member updates do not change a member's address (memberlist reports an address change as a join)",
          "serf's Lamport clock is at least 1 when the snapshotter reads it (Serf.Create increments it right after NewSnapshotter)"]


def load_replay(replay):
    v = json.load(open(replay))
    return v["schedule"]


# ----------------------------------------------------------------------------------------- C10

def run(ctx, replay=None):
    detect_variant(ctx)
    binary = build(ctx)
    if replay:
        return run_replay(ctx, binary, replay)
    return {"C10": run_c10, "C11": run_c11, "C12": run_c12, "C13": run_c13}[ctx.prop](ctx, binary)


def run_replay(ctx, binary, replay):
    s = load_replay(replay)
    summ = run_all(ctx, binary, [s], "replay", par=1)
    viol, seen = confirm(ctx, binary, summ, {s["id"]: s}, PREFIX[ctx.prop])
    finish(ctx, "model_checking", None, {}, summ, [s], viol, seen, "replay of one schedule", {}, ASSUME)


def variants(rng, base, sid0, thresholds, rals, classes):
    """One base history under several thresholds (same concretization: cid)."""
    out = []
    for i, steps in enumerate(base):
        cls = classes[i % len(classes)]
        tcls = "wide" if i % 2 == 0 else "small"
        ral = rals[i % len(rals)]
        for j, mcs in enumerate(thresholds):
            out.append(mk(sid0 + i * len(thresholds) + j, steps, mcs, ral, cls, tcls, sid0 + i))
    return out


def crossing_points(entries, kinds=None):
    """Inputs of a run WITHOUT compaction (threshold 128K) at which a threshold can be placed so that a chosen line of
    that input is the one that crosses it: the log before the input must be at least the node-count estimate
    (256 bytes x members alive), otherwise the estimate, not minCompactSize, is the threshold."""
    res = []
    for e in entries:
        if e["after"] is None or e["compact"] or e["after"] <= e["before"] or e["a"] == "shutdown":
            continue
        if e["before"] < 256 * max(e["n"], e["n_after"]):
            continue
        if kinds and (e["a"], e["ty"]) not in kinds and (e["a"], 0) not in kinds:
            continue
        res.append(e)
    return res


def merge(a, b):
    """Adds the summary of a second batch to the first."""
    for k in ("traces", "lines", "ops", "crashpoints", "restarts", "faults"):
        a[k] += b[k]
    for k in ("diverged", "monitors", "panics"):
        a[k] = list(a[k]) + list(b[k])
    for k in ("finals", "opcount", "sizes"):
        a[k].update(b[k])
    return a


def pick_crossings(rng, entries, per):
    """Up to `per` crossing points of one history, different line kinds first; each with d = 0 (first line of the
    input crosses) or d = bytes-1 (its last line crosses)."""
    pts = crossing_points(entries)
    rng.shuffle(pts)
    out, kinds = [], set()
    for e in pts:                       # one per kind of input first
        k = (e["a"], e["ty"])
        if k not in kinds and len(out) < per:
            kinds.add(k)
            out.append(e)
    for e in pts:
        if e not in out and len(out) < per:
            out.append(e)
    return [(e, 0 if i % 2 == 0 else e["after"] - e["before"] - 1) for i, e in enumerate(out)]


def directed(s, e, d, sid):
    """The same history and concretization as s with minCompactSize = (log size before input e) + d:
    d = 0 makes the FIRST line that input appends cross the threshold, d = (bytes appended) - 1 the LAST one."""
    c = s["cfg"]
    return mk(sid, s["steps"], e["before"] + d, c["ral"], c["cls"], c["tcls"], c["cid"])


def run_c10(ctx, binary):
    th = ctx.thorough()
    bg = Background(ctx, lambda c: (
        exhaustive(c, consts(2, 1 if th else 2, 1, 6 if th else 5, 2, 0, False, False, "{0, 60, 100000}", "{FALSE}"), "C10"),
        {"nl_name": reachable(c, consts(2, 1, 1, 4, 2, 0, False, False, "{100000}", "{FALSE}", evil="{2}"),
                              "NoC10rejoin", "C10 newline name")}))
    num, depth = (400, 40) if th else (40, 36)
    base = [close_session(s) for s in simulate(ctx, [1, 1, 2, 3, 4, 5, 6, 7, 8, 10], num, depth)]
    rng = random.Random(ctx.seed)
    scheds = variants(rng, base, 0, THRESHOLDS, [False, True], ["hostile", "hostile", "plain"])
    nl = [s for s in base if any(st["a"] == "feed" and st["ty"] == 1 for st in s)][: (40 if th else 8)]
    scheds += variants(rng, nl, 100000, [0, 128 * 1024], [False, True], ["newline"])
    summ = run_all(ctx, binary, scheds, "c10")
    # boundary-directed thresholds: the runs without compaction (128K) tell the log size before every input; each
    # history is run again with minCompactSize placed so that a chosen line (alive / not-alive / clock / event-clock /
    # query-clock) is exactly the one that crosses it
    dscheds = []
    for s in list(scheds):
        if s["cfg"]["mcs"] != 128 * 1024 or s["cfg"]["cls"] == "newline":
            continue
        for (e, d) in pick_crossings(rng, summ["sizes"].get(s["id"], []), 3 if th else 1):
            dscheds.append(directed(s, e, d, 200000 + len(dscheds)))
    if dscheds:
        summ = merge(summ, run_all(ctx, binary, dscheds, "c10d"))
        scheds += dscheds
    by_id = {s["id"]: s for s in scheds}
    viol, seen = confirm(ctx, binary, summ, by_id, "C10_")
    # the recovered state must not depend on the compaction threshold
    groups = {}
    for s in scheds:
        groups.setdefault(s["cfg"]["cid"], []).append(s["id"])
    flagged = set(m[0] for m in summ["monitors"] if any(c.startswith("C10_") for c in m[2]))
    differ = 0
    for cid, ids in groups.items():
        finals = [json.dumps(summ["finals"].get(i), sort_keys=True) for i in ids]
        if len(set(finals)) > 1:
            differ += 1
            if not (set(ids) & flagged):
                raise vlib.Inconclusive("history %d recovers different states under different thresholds but no C10 monitor "
                                        "fired (machinery error): %s" % (cid, finals))
    mc, reach = bg.join()
    finish(ctx, "model_checking", mc, reach, summ, scheds, viol, seen,
           "TLC -simulate behaviours of Snapshot (member/user/query events, clock advances, ticks, time advances, "
           "shutdown+restart) executed on the real Snapshotter under minCompactSize 0/300/128K with the same concrete names; "
           "every restart state is compared by TLC with the state the inputs imply; distinct = distinct (history, threshold, "
           "name class)",
           {"model_constants": ("exhaustive: 2 names x 1 address, times 0..1, <=6 inputs, 2 sessions, thresholds {0,60,never}" if th else
                                "exhaustive: 2 names x 2 addresses, times 0..1, <=5 inputs, 2 sessions, thresholds {0,60,never}") +
                               " with 40 bytes/node; simulation: 3 names x 3 addresses, times 0..6 (0..24 with the appended inputs) mapped "
                               "to 64-bit values",
            "evaluations": summ["restarts"], "histories_differing_across_thresholds": differ,
            "newline_class_schedules": len([s for s in scheds if s["cfg"]["cls"] == "newline"]),
            "threshold_directed_schedules": len(dscheds)},
           ASSUME)


# ----------------------------------------------------------------------------------------- C11

def run_c11(ctx, binary):
    th = ctx.thorough()
    bg = Background(ctx, lambda c: (
        exhaustive(c, consts(2, 2 if th else 1, 2 if th else 1, 4, 3, 0, True, True, "{0, 60, 100000}", "{FALSE, TRUE}"), "C11"),
        {"rm_window": reachable(c, consts(2, 1, 1, 3, 1, 0, False, False, "{0}", "{FALSE}"), "NoC11safe",
                                "C11 remove/rename window")}))
    num, depth = (400, 40) if th else (54, 36)
    base = simulate(ctx, [1, 2, 3, 4, 5, 6, 7, 8, 9, 10, 11, 12], num, depth, crash=True, leave=True, sess=4)
    base = [close_session(s) for s in base]
    scheds = []
    for i, steps in enumerate(base):
        scheds.append(mk(i, steps, THRESHOLDS[i % 3], (i // 3) % 2 == 1, "hostile" if i % 4 else "plain",
                         "wide" if i % 2 else "small", i))
    summ = run_all(ctx, binary, scheds, "c11")
    rng = random.Random(ctx.seed)
    # (a) boundary-directed thresholds from the runs without compaction
    dscheds = []
    for s in list(scheds):
        if s["cfg"]["mcs"] == 128 * 1024:
            for (e, d) in pick_crossings(rng, summ["sizes"].get(s["id"], []), 2 if th else 1):
                dscheds.append(directed(s, e, d, 200000 + len(dscheds)))
    # (b) second generation after a crash INSIDE a compaction: the crash image contains the old snapshot and a stale
    # <snap>.compact; the process restarts on it, a member recorded in the stale image goes away, the log is compacted
    # again (the temp file must be truncated, not continued), shutdown, restart
    gen2, learn = [], []
    for i in range(16 if th else 6):
        nm, ad = 1 + i % NN, 1 + (i // 2) % NA
        pre = [{"a": "started"}, feed(1, [[nm, ad]])]
        if i % 2:
            pre += [feed(6, [], 1 + i % GEN_MAXT), feed(1, [[1 + (nm % NN), ad]]), feed(2, [[1 + (nm % NN), 0]])]
        for v in range(GEN_MAXT + 1, GEN_MAXT + 15):
            pre += [{"a": "wit", "v": v}, {"a": "tick", "fail": 0}]
        pre += [{"a": "wit", "v": GEN_MAXT + 15}]
        if i % 3 != 2:
            pre += [{"a": "adv", "d": 6}]          # the crossing append also flushes: the whole log is with the OS
        x = {"a": "tick", "fail": 0}
        learn.append((i, pre, mk(300000 + i, close_session(pre + [x]), 128 * 1024, False, "hostile" if i % 2 else "plain", "wide", 300000 + i)))
    lsum = run_all(ctx, binary, [l[2] for l in learn], "c11learn", validate=False)
    for (i, pre, ls) in learn:
        ent = [e for e in lsum["sizes"].get(ls["id"], []) if e["step"] == len(pre)]
        if not ent or ent[0]["after"] is None or ent[0]["before"] < 256 * max(ent[0]["n"], 1):
            continue
        nm = pre[1]["ms"][0][0]
        for j, sel in enumerate(["write:tmp", "sync:tmp", "close:tmp"]):
            steps = pre + [{"a": "tick", "fail": 0}, {"a": "crash", "k": 0, "at": sel}, {"a": "started"},
                           feed(3 if j % 2 else 2, [[nm, 0]]),
                           {"a": "wit", "v": GEN_MAXT + 16}, {"a": "tick", "fail": 0},
                           {"a": "wit", "v": GEN_MAXT + 17}, {"a": "tick", "fail": 0},
                           {"a": "shutdown", "fail": 0}, {"a": "started"}]
            gen2.append(mk(310000 + len(gen2), steps, ent[0]["before"], False, ls["cfg"]["cls"], "wide", ls["cfg"]["cid"]))
    if dscheds or gen2:
        summ = merge(summ, run_all(ctx, binary, dscheds + gen2, "c11d"))
        scheds += dscheds + gen2
    viol, seen = confirm(ctx, binary, summ, {s["id"]: s for s in scheds}, "C11_")
    mc, reach = bg.join()
    finish(ctx, "fault_enumeration", mc, reach, summ, scheds, viol, seen,
           "every operation boundary of every executed history is a crash point: the directory image captured there is replayed "
           "by a fresh real NewSnapshotter and judged by the CrashSafe monitor; histories also contain explicit crashes followed "
           "by a restart from the crash image; distinct = distinct (history, threshold)",
           {"model_constants": "exhaustive: 2 names x %d addresses, times 0..%d, <=%d inputs, 3 sessions, crash after any "
                               "operation, leave allowed, both rejoin-after-leave settings, thresholds {0,60,never}" % (2 if th else 1, 2 if th else 1, 4),
            "evaluations": summ["crashpoints"], "threshold_directed_schedules": len(dscheds),
            "second_generation_after_crash_in_compaction": len(gen2)}, ASSUME)


# ----------------------------------------------------------------------------------------- C12

SUFFIX = [{"a": "adv", "d": 301}, feed(1, [[1, 1]]), feed(6, [], MAXT), feed(7, [], MAXT), {"a": "tick", "fail": 0}]


def run_c12(ctx, binary):
    th = ctx.thorough()
    bg = Background(ctx, lambda c: (
        exhaustive(c, consts(2, 2 if th else 1, 1, 4, 2, 1, False, False, "{0, 60, 100000}", "{FALSE}"), "C12"),
        {"swap_fault": reachable(c, consts(2, 1, 1, 3, 1, 1, False, False, "{0}", "{FALSE}"), "NoC12panic",
                                 "C12 nil handles after a failed swap")}))
    num, depth = (60, 24) if th else (10, 16)
    base = simulate(ctx, [1, 2, 3, 4, 5, 6, 7, 8], num, depth, sess=1)
    rng = random.Random(ctx.seed)
    bases = []
    for i, steps in enumerate(base):
        steps = [st for st in steps if st["a"] != "shutdown"]
        bases.append(mk(i, close_session(steps + SUFFIX), [0, 300, 0, 128 * 1024][i % 4], False,
                        "hostile" if i % 3 else "plain", "small", i, torn=0))
    # fault WINDOW inside a compaction, then the state SHRINKS, then the retry: family-built histories whose last clock line
    # crosses a learned threshold; in the judged run every rename (or every sync) of the temp file fails while that input
    # is handled (the threshold compaction AND the immediate recovery compaction fail, a stale <snap>.compact stays
    # behind, the handles are closed), the recorded members depart, the retry compaction installs the smaller image
    learn = []
    for i in range(16 if th else 6):
        nm, other, ad = 1 + i % NN, 1 + (i + 1) % NN, 1 + (i // 2) % NA
        # two members in the image of the failed compaction; some event and query clocks; wide times (equal digit counts)
        pre = [{"a": "started"}, feed(1, [[nm, ad]]), feed(1, [[other, 1 + (ad % NA)]]),
               feed(6, [], 1), feed(6, [], 2), feed(6, [], 3), feed(7, [], 1 + i % 3)]
        for v in range(GEN_MAXT + 1, GEN_MAXT + 15):
            pre += [{"a": "wit", "v": v}, {"a": "tick", "fail": 0}]
        pre += [{"a": "wit", "v": GEN_MAXT + 15}]
        if i % 3 != 2:
            pre += [{"a": "adv", "d": 6}]
        learn.append((i, pre, nm, other,
                      mk(600 + i, close_session(pre + [{"a": "tick", "fail": 0}]), 128 * 1024, False,
                         "hostile" if i % 2 else "plain", "wide", 600 + i, torn=0)))
    # pass 1: fault-free runs tell how many file operations each input performs (and the log sizes of the learn histories)
    summ0 = run_all(ctx, binary, bases + [l[4] for l in learn], "c12base")
    wscheds = []
    for (i, pre, nm, other, ls) in learn:
        ent = [e for e in summ0["sizes"].get(ls["id"], []) if e["step"] == len(pre)]
        if not ent or ent[0]["after"] is None or ent[0]["before"] < 256 * max(ent[0]["n"], 1):
            continue
        for fo in ("rename:tmp", "sync:tmp"):
            steps = pre + [{"a": "tick", "fail": 0, "failop": fo},
                           # the first append after the window flushes into the closed file: sticky bufio error, and the
                           # recovery compaction is throttled for 30 s; meanwhile the state shrinks and the clocks move on
                           {"a": "adv", "d": 6}, feed(6, [], MAXT - 1), feed(3, [[nm, 0]]), feed(2, [[other, 0]]),
                           {"a": "wit", "v": GEN_MAXT + 16}, {"a": "tick", "fail": 0},
                           {"a": "adv", "d": 301}, feed(7, [], MAXT),          # -> the retry compaction installs the smaller image
                           {"a": "shutdown", "fail": 0}, {"a": "started"}]
            wscheds.append(mk(700 + len(wscheds), steps, ent[0]["before"], False, ls["cfg"]["cls"], "wide", ls["cfg"]["cid"], torn=0))
    points = []
    for s in bases:
        for (step, nops) in summ0["opcount"].get(s["id"], []):
            for k in range(1, nops + 1):
                points.append((s, step, k))
    total_points = len(points)
    cap = 4000 if th else 420
    if len(points) > cap:
        rng.shuffle(points)
        points = points[:cap]
    scheds = []
    for n, (s, step, k) in enumerate(points):
        steps = [dict(st) for st in s["steps"]]
        steps[step]["fail"] = k
        scheds.append(mk(1000 + n, steps, s["cfg"]["mcs"], False, s["cfg"]["cls"], s["cfg"]["tcls"], s["cfg"]["cid"], torn=0))
    scheds += wscheds
    summ = run_all(ctx, binary, scheds, "c12")
    viol, seen = confirm(ctx, binary, summ, {s["id"]: s for s in scheds}, "C12_")
    mc, reach = bg.join()
    finish(ctx, "fault_enumeration", mc, reach, summ, scheds, viol, seen,
           "for each executed base history, each numbered file operation of each input is failed once (one run per injection "
           "point, child process per batch); after the faulting input the history continues, the shim clock passes the 30 s retry "
           "interval, later joins/clock changes are fed, then shutdown and restart; distinct = distinct (history, injection point)",
           {"model_constants": "exhaustive: 2 names x %d address(es), times 0..1, <=4 inputs, one fault at any operation of any "
                               "input, thresholds {0,60,never}" % (2 if th else 1),
            "evaluations": summ["faults"], "injection_points_total": total_points, "injection_points_run": len(scheds),
            "base_histories": len(bases), "fault_window_then_shrink_schedules": len(wscheds)}, ASSUME)


# ----------------------------------------------------------------------------------------- C13

def run_c13(ctx, binary):
    th = ctx.thorough()
    bg = Background(ctx, lambda c: exhaustive(
        c, consts(2, 1, 2 if th else 1, 5, 3 if th else 2, 0, False, True, "{0, 60, 100000}", "{FALSE, TRUE}"), "C13"))
    num, depth = (300, 36) if th else (36, 30)
    base = simulate(ctx, [1, 1, 2, 3, 4, 5, 6, 7, 8, 9, 9, 10], num, depth, leave=True, sess=3)
    rng = random.Random(ctx.seed)
    scheds = []
    for i, steps in enumerate(base):
        steps = list(steps)
        if not any(st["a"] == "leave" for st in steps) and is_up(steps):
            # a leave somewhere in the last session, events and ticks may follow it
            last_start = max(j for j, st in enumerate(steps) if st["a"] == "started")
            steps.insert(rng.randint(last_start + 1, len(steps)), {"a": "leave", "fail": 0})
        if i % 3 != 2 and is_up(steps) and any(st["a"] == "leave" for st in steps):
            # clock changes after the leave: the ticks keep appending (and compacting) behind the `leave` line
            for v in range(GEN_MAXT + 1, MAXT + 1):
                steps += [{"a": "wit", "v": v}, {"a": "tick", "fail": 0}]
        if is_up(steps) and any(st["a"] == "leave" for st in steps[max(j for j, st in enumerate(steps) if st["a"] == "started"):]):
            # a burst of member events pushed without waiting, then the shutdown at once: some are still buffered in
            # streamCh and are seen by the drain loop of the shutdown branch instead of the main loop
            steps.append({"a": "burst", "evs": [{"ty": 1 if k % 5 else 3, "ms": [[1 + k % NN, 1 + (k // NN) % NA]], "t": 0}
                                                for k in range(BURST)]})
        steps = close_session(steps)
        if i % 2 == 0:      # a further session appends after the `leave` line
            steps += [feed(1, [[1 + i % NN, 1]]), feed(6, [], 1 + i % GEN_MAXT), {"a": "tick", "fail": 0}]
            steps = close_session(steps)
        scheds.append(mk(i, steps, THRESHOLDS[i % 3], (i // 3) % 2 == 0, "hostile" if i % 4 else "plain",
                         "wide" if i % 2 else "small", i))
    # the leave line itself is the one that crosses the compaction threshold: histories cut at their leave, with one
    # member alive and enough clock lines before it that the log exceeds the node-count estimate; a learning run
    # (no compaction) gives the log size S at the leave, then minCompactSize = S + d for d in {0, 5} ("leave\n" is 6 bytes)
    learn = []
    for i, steps in enumerate(base[: (120 if th else 24)]):
        steps = [st for st in steps if st["a"] not in ("leave", "burst")]
        if not is_up(steps):
            steps.append({"a": "started"})
        nm = 1 + i % NN
        steps += [feed(3, [[1 + nm % NN, 0]]), feed(2, [[1 + (nm + 1) % NN, 0]]), feed(1, [[nm, 1 + i % NA]])]
        for v in range(GEN_MAXT + 1, GEN_MAXT + 13):
            steps += [{"a": "wit", "v": v}, {"a": "tick", "fail": 0}]
        if i % 2:
            steps += [{"a": "adv", "d": 6}]
        steps += [{"a": "leave", "fail": 0}]
        li = len(steps) - 1
        if i % 3 == 0:
            steps += [{"a": "wit", "v": GEN_MAXT + 13}, {"a": "tick", "fail": 0}]
        learn.append((li, mk(400000 + i, close_session(steps), 128 * 1024, i % 4 == 3, "hostile" if i % 3 else "plain", "wide", 400000 + i)))
    lsum = run_all(ctx, binary, [l[1] for l in learn], "c13learn", validate=False)
    dscheds = []
    for (li, ls) in learn:
        ent = [e for e in lsum["sizes"].get(ls["id"], []) if e["step"] == li and e["a"] == "leave"]
        if ent and ent[0]["after"] is not None and not ent[0]["compact"] and ent[0]["before"] >= 256 * ent[0]["n"] and ent[0]["n"] > 0:
            for d in (0, 5):
                dscheds.append(directed(ls, ent[0], d, 410000 + len(dscheds)))
    # the leave issued through the REAL Serf.Leave of a quiet Serf node with a snapshot file, in every membership situation
    sscheds = serf_level(ctx, 120 if th else 16, 12)
    summ = run_all(ctx, binary, scheds + dscheds + sscheds, "c13")
    scheds += dscheds + sscheds
    viol, seen = confirm(ctx, binary, summ, {s["id"]: s for s in scheds}, "C13_")
    leaves = sum(1 for s in scheds for st in s["steps"] if st["a"] == "leave")
    mc = bg.join()
    finish(ctx, "model_checking", mc, {}, summ, scheds, viol, seen,
           "TLC -simulate behaviours with a graceful leave (events, ticks, clock advances and forced compactions before and "
           "after it; then a burst of 300 member events pushed without waiting and the shutdown at once, so that the "
           "shutdown drain loop sees buffered events), shutdown, restart, and for half of them a further session appending "
           "after the leave line; both "
           "rejoin-after-leave settings and thresholds 0/300/128K; distinct = distinct (history, threshold)",
           {"model_constants": "exhaustive: 2 names, times 0..%d, <=%d inputs, %d sessions, both rejoin-after-leave settings, "
                               "thresholds {0,60,never}" % (2 if th else 1, 5, 3 if th else 2),
            "evaluations": leaves, "leave_line_crosses_threshold_schedules": len(dscheds),
            "serf_level_schedules": len(sscheds)}, ASSUME)
