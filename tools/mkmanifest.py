#!/usr/bin/env python3
"""Generates /verif/MANIFEST.json from the table below (one entry per claimed property)."""
import json
import os

VERIF = os.path.dirname(os.path.dirname(os.path.abspath(__file__)))



def collect_claims():
    """Every tools/families/<f>.py may declare CLAIMS = {id: (level, text, note, technique, design_ref)}."""
    import importlib
    import sys
    sys.path.insert(0, os.path.join(VERIF, "tools"))
    res = {}
    d = os.path.join(VERIF, "tools", "families")
    # only families the lead has reviewed and run are claimed (tools/approved_families.txt)
    with open(os.path.join(VERIF, "tools", "approved_families.txt")) as fh:
        approved = set(fh.read().split())
    for f in sorted(os.listdir(d)):
        if f.endswith(".py") and not f.startswith("_") and f[:-3] in approved:
            mod = importlib.import_module("families." + f[:-3])
            for pid, c in getattr(mod, "CLAIMS", {}).items():
                res[pid] = c
    return res


CLAIMS = collect_claims()

PENDING_REASON = "check not built yet in this session (planned, see DESIGN.md section 5); not claimed until its self-test passes"


def main():
    props = [json.loads(l)["id"] for l in open(os.path.join(VERIF, "properties.jsonl"))]
    checks = []
    for pid in props:
        if pid not in CLAIMS:
            continue
        level, text, note, tech, ref = CLAIMS[pid]
        checks.append({
            "property_id": pid,
            "quick_cmd": "./check %s --tier quick" % pid,
            "thorough_cmd": "./check %s --tier thorough" % pid,
            "evidence_file": "evidence/%s.json" % pid,
            "replay_cmd_template": "./check %s --replay {path}" % pid,
            "engine": "tlc+harness",
            "level_claimed": {"category": level, "text": text, "design_ref": "DESIGN.md section " + ref},
            "level_note": note,
            "technique": tech,
        })
    na_path = os.path.join(VERIF, "tools", "not_applicable.json")
    na_over = json.load(open(na_path)) if os.path.exists(na_path) else {}
    na = [{"property_id": p, "reason": na_over.get(p, PENDING_REASON)} for p in props if p not in CLAIMS]
    man = {
        "version": 1,
        "setup_cmd": "./setup.sh",
        "hooks": {
            "guard": "verif",
            "enable": "go build -tags verif -overlay <generated json> (hook files live in /verif/hooks and are added to /repo's "
                      "packages by the overlay; instrumented copies are generated from /repo's working tree at check time)",
            "baseline_off_cmd": "cd /repo && go test -mod=mod -vet=off -count=1 -timeout 25m ./...",
            "source_commits": [],
            "add_only": True,
        },
        "engines": [
            {"name": "tlc", "path": "spec/", "serves_properties": sorted(CLAIMS),
             "kind_free_text": "TLA+ specifications, exhaustive/simulation configs, trace specs (TLC 1.8)"},
            {"name": "harness", "path": "harness/", "serves_properties": sorted(CLAIMS),
             "kind_free_text": "Go drivers executing TLC-generated schedules on the real code and recording NDJSON traces"},
            {"name": "orchestrator", "path": "check", "serves_properties": sorted(CLAIMS),
             "kind_free_text": "python: builds, runs TLC and drivers, confirms violations by re-execution, writes evidence"},
        ],
        "checks": checks,
        "not_applicable": na,
        "notes": "Model-based verification with explicit TLA+ specifications; see DESIGN.md.",
    }
    with open(os.path.join(VERIF, "MANIFEST.json"), "w") as f:
        json.dump(man, f, indent=1)
        f.write("\n")
    print("claimed:", len(checks), "not claimed:", len(na))


if __name__ == "__main__":
    main()
