#!/usr/bin/env python3
"""Generates /verif/MANIFEST.json from the table below (one entry per claimed property)."""
import json
import os

VERIF = os.path.dirname(os.path.dirname(os.path.abspath(__file__)))

MC = "model_checking"
CLAIMS = {
    # id: (level, text, note, technique, design_ref)
    "C17": (MC,
            "TLC checks the C17 monitor exhaustively on spec/CoalesceMember.tla (all event/flush sequences over NM names x 5 kinds); "
            "TLC-simulated behaviours are executed on the real memberEventCoalescer and every recorded call is validated against "
            "the spec by TLC (Trace_CoalesceMember), with the same monitor evaluated on the observed outputs.",
            "Trusts TLC, the overlay accessor that constructs the coalescer as serf.Create does, and that coalesceLoop calls "
            "Coalesce/Flush from one goroutine.",
            "TLA+ spec + TLC exhaustive check; TLC-generated schedules replayed on the real code; TLC trace validation with property monitors",
            "5 C17"),
    "C18": (MC,
            "TLC checks the C18 monitor exhaustively on spec/CoalesceUser.tla (feeds of coalescable/plain user events, member events and "
            "queries with Lamport-time ties, flush anywhere); simulated behaviours run on the real userEventCoalescer and through the real "
            "coalesceLoop goroutine; every recorded step is validated by TLC against the spec with the monitor on observed outputs.",
            "Trusts TLC and the overlay accessor; loop-mode runs flush only at shutdown (timers never fire).",
            "TLA+ spec + TLC exhaustive check; TLC-generated schedules replayed on the real code; TLC trace validation with property monitors",
            "5 C18"),
    "C19": (MC,
            "TLC checks C19 exhaustively on spec/Lamport.tla (2 threads x 2 calls and 3 threads x 1 call over Time/Increment/Witness with "
            "values {0,1,2,MAX-1,MAX}, every interleaving of the atomic accesses, MAX standing for 2^64-1); the real LamportClock, "
            "yield-instrumented from the working tree, is run under every schedule with <=2 (thorough 3) preemptions plus random ones by a "
            "cooperative scheduler, and every scheduling step is validated by TLC against the spec (subset construction over the unlogged "
            "locals) with the C19 monitor on the observed counter and results.",
            "Trusts TLC, the instrumenter (yield before every statement of lamport.go), the gap embedding of 0..MAX into uint64. "
            "The wrap at 2^64-1 is a recorded known finding (tag at_top).",
            "TLA+ spec + TLC exhaustive check; systematic schedule enumeration of the instrumented real code; TLC trace validation with property monitors",
            "5 C19"),
    "C03": (MC,
            "TLC checks the C03 monitors (self listed alive while not leaving; every leave/force-leave/prune claim or state-sync left-entry about the "
            "local node newer than its join is answered by a queued join strictly newer than the claim) exhaustively on the open single-replica model "
            "and on every step of TLC-simulated input sequences executed on a real Serf node (messages in the real wire format through NotifyMsg / "
            "MergeRemoteState, force-leave and broadcastJoin through the API).",
            "Trusts TLC, the overlay accessor that reads members/status times/lists/intent buffer under memberLock, the wire encoding mirror in the harness, and that memberlist never reports a leave for a node it has not reported joined.", "TLA+ spec (SerfHandlers/SerfReplica) + TLC exhaustive check of the monitors; TLC-simulated input sequences replayed on a real quiet Serf node; TLC trace validation of every step with property monitors on observed state", "5 C03"),
    "C15": (MC,
            "TLC checks the C15 monitors (Stats() failed/left equal the counts in Members(), lists duplicate-free and status-consistent, reap removes "
            "exactly the expired failed/left members with one reap event each using the reconnect/tombstone base per list, pruned member gone) "
            "exhaustively on the model and on every step of simulated histories run on a real node whose reaper runs every 3ms with per-member expiry "
            "chosen through ReconnectTimeoutOverride.",
            "Trusts TLC, the overlay accessor that reads members/status times/lists/intent buffer under memberLock, the wire encoding mirror in the harness, and that memberlist never reports a leave for a node it has not reported joined.", "TLA+ spec (SerfHandlers/SerfReplica) + TLC exhaustive check of the monitors; TLC-simulated input sequences replayed on a real quiet Serf node; TLC trace validation of every step with property monitors on observed state", "5 C15"),
}

PENDING_REASON = "check not built yet in this session (planned, see DESIGN.md section 5); not claimed until its self-test passes"


def main():
    props = [json.loads(l)["id"] for l in open(os.path.join(VERIF, "properties.jsonl"))]
    checks = []
    for pid in props:
        if pid not in CLAIMS:
            continue
        level, text, note, tech, ref = CLAIMS[pid]
        checks.append({
            "property_id": pid,
            "quick_cmd": "./check %s --tier quick" % pid,
            "thorough_cmd": "./check %s --tier thorough" % pid,
            "evidence_file": "evidence/%s.json" % pid,
            "replay_cmd_template": "./check %s --replay {path}" % pid,
            "engine": "tlc+harness",
            "level_claimed": {"category": level, "text": text, "design_ref": "DESIGN.md section " + ref},
            "level_note": note,
            "technique": tech,
        })
    na_path = os.path.join(VERIF, "tools", "not_applicable.json")
    na_over = json.load(open(na_path)) if os.path.exists(na_path) else {}
    na = [{"property_id": p, "reason": na_over.get(p, PENDING_REASON)} for p in props if p not in CLAIMS]
    man = {
        "version": 1,
        "setup_cmd": "./setup.sh",
        "hooks": {
            "guard": "verif",
            "enable": "go build -tags verif -overlay <generated json> (hook files live in /verif/hooks and are added to /repo's "
                      "packages by the overlay; instrumented copies are generated from /repo's working tree at check time)",
            "baseline_off_cmd": "cd /repo && go test -mod=mod -vet=off -count=1 -timeout 25m ./...",
            "source_commits": [],
            "add_only": True,
        },
        "engines": [
            {"name": "tlc", "path": "spec/", "serves_properties": sorted(CLAIMS),
             "kind_free_text": "TLA+ specifications, exhaustive/simulation configs, trace specs (TLC 1.8)"},
            {"name": "harness", "path": "harness/", "serves_properties": sorted(CLAIMS),
             "kind_free_text": "Go drivers executing TLC-generated schedules on the real code and recording NDJSON traces"},
            {"name": "orchestrator", "path": "check", "serves_properties": sorted(CLAIMS),
             "kind_free_text": "python: builds, runs TLC and drivers, confirms violations by re-execution, writes evidence"},
        ],
        "checks": checks,
        "not_applicable": na,
        "notes": "Model-based verification with explicit TLA+ specifications; see DESIGN.md.",
    }
    with open(os.path.join(VERIF, "MANIFEST.json"), "w") as f:
        json.dump(man, f, indent=1)
        f.write("\n")
    print("claimed:", len(checks), "not claimed:", len(na))


if __name__ == "__main__":
    main()
