#!/usr/bin/env python3
"""mutcheck.py <patch> <prop> [<prop>...]: applies a patch to /repo, runs the quick checks of the
given properties in parallel, reverts the patch, prints one line per property (exit code, verdict).
Never leaves /repo modified.  Used for the self-validation corpus (mutants/, seeded/)."""
import os
import subprocess
import sys

VERIF = os.path.dirname(os.path.dirname(os.path.abspath(__file__)))


def main():
    patch = os.path.abspath(sys.argv[1])
    props = sys.argv[2:]
    st = subprocess.run(["git", "-C", "/repo", "status", "--porcelain"], capture_output=True, text=True).stdout.strip()
    if st:
        print("refusing: /repo is not clean:\n" + st)
        sys.exit(2)
    r = subprocess.run(["git", "-C", "/repo", "apply", patch], capture_output=True, text=True)
    if r.returncode != 0:
        print("patch does not apply:", r.stderr)
        sys.exit(2)
    try:
        procs = {}
        for p in props:
            procs[p] = subprocess.Popen([os.path.join(VERIF, "check"), p, "--tier", os.environ.get("VERIF_TIER", "quick")],
                                        cwd=VERIF, stdout=subprocess.PIPE, stderr=subprocess.DEVNULL, text=True)
        for p, pr in procs.items():
            out, _ = pr.communicate()
            lines = [l for l in out.splitlines() if l.startswith(("VIOLATION", "OK", "INCONCLUSIVE", "KNOWN"))]
            detail = [l for l in out.splitlines() if l.startswith("  clauses")][:1]
            print("%s exit=%d %s %s" % (p, pr.returncode, " | ".join(l[:160] for l in lines), (detail[0][:200] if detail else "")))
    finally:
        subprocess.run(["git", "-C", "/repo", "checkout", "--", "."])
        subprocess.run(["git", "-C", "/repo", "clean", "-fdq"])


if __name__ == "__main__":
    main()
