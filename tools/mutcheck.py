#!/usr/bin/env python3
"""mutcheck.py <patch> <prop> [<prop>...]: applies a patch to a private scratch worktree of /repo (never to
/repo itself), runs the quick checks of the given properties against it in parallel (VERIF_REPO), removes the
worktree, prints one line per property.  Used for the self-validation corpus (mutants/, seeded/)."""
import os
import subprocess
import sys
import tempfile

VERIF = os.path.dirname(os.path.dirname(os.path.abspath(__file__)))


def main():
    patch = os.path.abspath(sys.argv[1])
    props = sys.argv[2:]
    wt = tempfile.mkdtemp(prefix="verif-mut-")
    os.rmdir(wt)
    r = subprocess.run(["git", "-C", "/repo", "worktree", "add", "-q", "--detach", wt, "HEAD"], capture_output=True, text=True)
    if r.returncode != 0:
        print("cannot create worktree:", r.stderr)
        sys.exit(2)
    try:
        r = subprocess.run(["git", "-C", wt, "apply", patch], capture_output=True, text=True)
        if r.returncode != 0:
            print("patch does not apply:", r.stderr)
            sys.exit(2)
        env = dict(os.environ)
        env["VERIF_REPO"] = wt
        procs = {}
        for p in props:
            procs[p] = subprocess.Popen([os.path.join(VERIF, "check"), p, "--tier", os.environ.get("VERIF_TIER", "quick")],
                                        cwd=VERIF, stdout=subprocess.PIPE, stderr=subprocess.DEVNULL, text=True, env=env)
        for p, pr in procs.items():
            out, _ = pr.communicate()
            lines = [l for l in out.splitlines() if l.startswith(("VIOLATION", "OK", "INCONCLUSIVE", "KNOWN"))]
            detail = [l for l in out.splitlines() if l.startswith("  clauses")][:1]
            print("%s exit=%d %s %s" % (p, pr.returncode, " | ".join(l[:160] for l in lines), (detail[0][:200] if detail else "")))
    finally:
        subprocess.run(["git", "-C", "/repo", "worktree", "remove", "--force", wt])


if __name__ == "__main__":
    main()
