#!/usr/bin/env python3
"""seedcheck.py <ID> <OUT dir> [<check ids>...]: confirms an independently produced seeded change:
 (1) demo passes on the unchanged tree, (2) fails with the patch, (3) the repository's test suite still passes with the
 patch, (4) our checks (default: <ID>) are run against the patched tree through a private worktree.  Writes
 /verif/seeded/<ID>[-n]/{patch.diff, demo, meta.json}.  Never touches /repo."""
import glob
import json
import os
import re
import shutil
import subprocess
import sys
import tempfile
import time

VERIF = os.path.dirname(os.path.dirname(os.path.abspath(__file__)))
ENV = dict(os.environ, GOFLAGS="-mod=mod", GOPROXY="off")
ENV.pop("GOSUMDB", None)
ENV.pop("GOTOOLCHAIN", None)
PKGDIR = {"serf": "serf", "agent": "cmd/serf/command/agent", "client": "client", "coordinate": "coordinate", "command": "cmd/serf/command"}


def sh(cmd, cwd, timeout=1800):
    p = subprocess.run(cmd, cwd=cwd, env=ENV, stdout=subprocess.PIPE, stderr=subprocess.STDOUT, text=True, timeout=timeout)
    return p.returncode, p.stdout


def main():
    pid, out = sys.argv[1], os.path.abspath(sys.argv[2])
    args = [a for a in sys.argv[3:] if a != "--nosuite"]
    nosuite = "--nosuite" in sys.argv
    checks = args or [pid]
    patch = os.path.join(out, "patch.diff")
    demos = [f for f in glob.glob(os.path.join(out, "*.go"))]
    wt = tempfile.mkdtemp(prefix="verif-seedcheck-")
    os.rmdir(wt)
    subprocess.run(["git", "-C", "/repo", "worktree", "add", "-q", "--detach", wt, "HEAD"], check=True)
    meta = {"property": pid, "ran": [], "checks": {}}
    try:
        placed = []
        for d in demos:
            m = re.search(r"^package (\w+)", open(d).read(), re.M)
            pkg = m.group(1).replace("_test", "") if m else "serf"
            if pkg == "main":
                continue
            dst = os.path.join(wt, PKGDIR.get(pkg, pkg), os.path.basename(d))
            shutil.copy(d, dst)
            placed.append((dst, PKGDIR.get(pkg, pkg)))
        pkgs = sorted(set("./" + p + "/" for _, p in placed))
        names = set()
        for d in demos:
            names |= set(re.findall(r"^func (Test\w+)\(", open(d).read(), re.M))
        runre = "^(" + "|".join(sorted(names)) + ")$"
        cmd = ["go", "test", "-mod=mod", "-vet=off", "-count=1", "-timeout", "10m", "-run", runre] + pkgs
        rc0, o0 = sh(cmd, wt)
        meta["ran"].append({"cmd": " ".join(cmd), "tree": "unchanged", "rc": rc0})
        print("demo on unchanged tree: rc=%d" % rc0)
        rc, o = sh(["git", "apply", patch], wt)
        if rc != 0:
            print("patch does not apply:", o)
            sys.exit(2)
        rc1, o1 = sh(cmd, wt)
        meta["ran"].append({"cmd": " ".join(cmd), "tree": "patched", "rc": rc1})
        print("demo on patched tree:   rc=%d" % rc1)
        for dst, _ in placed:
            os.remove(dst)
        t0 = time.time()
        if nosuite:
            rc2, o2 = 0, ""
            meta["suite"] = "not run in this pass (shared machine too loaded); to be run separately"
        else:
            rc2, o2 = sh(["go", "test", "-mod=mod", "-vet=off", "-count=1", "-timeout", "25m", "./..."], wt, timeout=3000)
        fails = sorted(set(re.findall(r"^--- FAIL: (\S+)", o2, re.M)))
        meta["ran"].append({"cmd": "go test -mod=mod -vet=off -count=1 -timeout 25m ./...", "tree": "patched", "failed_tests": fails,
                            "wall_s": round(time.time() - t0)})
        print("repository suite on patched tree: failing tests = %s" % fails)
        # the shared machine makes timing/port-sensitive tests flaky: a test counts as failing only if it also
        # fails when re-run alone (twice)
        real = []
        for t in fails:
            if t == "TestSyslogFilter":
                continue
            okk = False
            for _ in range(2):
                rcx, ox = sh(["go", "test", "-mod=mod", "-vet=off", "-count=1", "-timeout", "10m", "-run", "^%s$" % t.split("/")[0], "./..."], wt, timeout=1500)
                if rcx == 0 or not re.search(r"^--- FAIL: %s" % re.escape(t), ox, re.M):
                    okk = True
                    break
            if not okk:
                real.append(t)
        meta["ran"].append({"rerun_alone_still_failing": real})
        print("still failing when re-run alone:", real)
        suite_ok = not real
        env = dict(os.environ, VERIF_REPO=wt)
        for c in checks:
            p = subprocess.run([os.path.join(VERIF, "check"), c], cwd=VERIF, env=env, stdout=subprocess.PIPE, stderr=subprocess.DEVNULL, text=True)
            lines = [l for l in p.stdout.splitlines() if l.startswith(("VIOLATION", "OK", "INCONCLUSIVE", "  clauses"))][:3]
            meta["checks"][c] = {"exit": p.returncode, "output": lines}
            print("check %s: exit=%d %s" % (c, p.returncode, " | ".join(l[:200] for l in lines)))
        meta["valid_seed"] = (rc0 == 0 and rc1 != 0 and suite_ok)
        meta["caught_by"] = [c for c, v in meta["checks"].items() if v["exit"] == 1]
        print("valid seed:", meta["valid_seed"], " caught by:", meta["caught_by"])
        dst = os.path.join(VERIF, "seeded", pid)
        n = 1
        while os.path.exists(dst):
            n += 1
            dst = os.path.join(VERIF, "seeded", "%s-%d" % (pid, n))
        os.makedirs(dst)
        shutil.copy(patch, dst)
        for d in demos:
            shutil.copy(d, os.path.join(dst, os.path.basename(d) + ".txt"))   # .txt: not compiled by anyone
        if os.path.exists(os.path.join(out, "notes.md")):
            shutil.copy(os.path.join(out, "notes.md"), dst)
            meta["needs"] = "see notes.md"
        with open(os.path.join(dst, "meta.json"), "w") as f:
            json.dump(meta, f, indent=1)
        print("stored in", dst)
    finally:
        subprocess.run(["git", "-C", "/repo", "worktree", "remove", "--force", wt])


if __name__ == "__main__":
    main()
