#!/usr/bin/env python3
"""seedregress.py [-jN] [seed dirs...]: re-runs, for every stored seeded change, the check(s) recorded as catching it
(meta.json caught_by) against a private worktree with the patch applied, and writes seeded/REGRESSION.md."""
import glob
import json
import multiprocessing
import os
import re
import subprocess
import sys
import time

VERIF = os.path.dirname(os.path.dirname(os.path.abspath(__file__)))


def one(d):
    name = os.path.basename(d.rstrip("/"))
    meta = json.load(open(os.path.join(d, "meta.json")))
    checks = meta.get("caught_by") or [meta["property"]]
    res = []
    for c in checks[:1]:
        t0 = time.time()
        p = subprocess.run([sys.executable, os.path.join(VERIF, "tools", "mutcheck.py"), os.path.join(d, "patch.diff"), c],
                           cwd=VERIF, stdout=subprocess.PIPE, stderr=subprocess.STDOUT, text=True)
        m = re.search(r"%s exit=(\d+)" % c, p.stdout)
        cl = re.search(r"clauses=\[([^\]]*)\]", p.stdout)
        res.append((c, int(m.group(1)) if m else -1, cl.group(1) if cl else "", round(time.time() - t0)))
    print(name, res, flush=True)
    return name, res


if __name__ == "__main__":
    args = sys.argv[1:]
    j = 3
    if args and args[0].startswith("-j"):
        j = int(args[0][2:])
        args = args[1:]
    dirs = args or sorted(glob.glob(os.path.join(VERIF, "seeded", "C*")))
    dirs = [d for d in dirs if os.path.isfile(os.path.join(d, "patch.diff"))]
    with multiprocessing.Pool(j) as pool:
        out = pool.map(one, dirs, chunksize=1)
    path = os.path.join(VERIF, "seeded", "REGRESSION.md")
    old = {}
    if os.path.exists(path):
        for line in open(path):
            mm = re.match(r"\| (C\d+(?:-\d)?) \|", line)
            if mm:
                old[mm.group(1)] = line
    for name, res in out:
        c, rc, cl, wall = res[0]
        old[name] = "| %s | %s | %s | %s | %d s |\n" % (name, c, "exit 1 (caught)" if rc == 1 else "exit %d" % rc, cl.replace("'", "`"), wall)
    with open(path, "w") as f:
        f.write("# Seed regression: every stored seeded change re-run against the check recorded as catching it\n\n"
                "Produced by `python3 tools/seedregress.py` (private worktree per run, /repo untouched), last on %s UTC.\n\n"
                "| seed | check | result | clauses | wall |\n|---|---|---|---|---|\n" % time.strftime("%Y-%m-%d %H:%M", time.gmtime()))
        def key(n):
            mm = re.match(r"C(\d+)(?:-(\d))?", n)
            return (int(mm.group(1)), int(mm.group(2) or 1))
        for n in sorted(old, key=key):
            f.write(old[n])
    bad = [n for n, r in out if r[0][1] != 1]
    print("NOT caught:", bad)
