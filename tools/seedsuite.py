#!/usr/bin/env python3
"""seedsuite.py <seeded dir>...: runs the repository's test suite on a private worktree with the seeded patch applied
(failing tests are re-run alone, the shared machine makes timing tests flaky) and records the result in meta.json."""
import json
import os
import re
import subprocess
import sys
import tempfile
import time

ENV = dict(os.environ, GOFLAGS="-mod=mod", GOPROXY="off")
ENV.pop("GOSUMDB", None)
ENV.pop("GOTOOLCHAIN", None)
OFFLINE = {"TestSyslogFilter"}


def sh(cmd, cwd, timeout=2400):
    p = subprocess.run(cmd, cwd=cwd, env=ENV, stdout=subprocess.PIPE, stderr=subprocess.STDOUT, text=True, timeout=timeout)
    return p.returncode, p.stdout


def one(d):
    d = os.path.abspath(d)
    wt = tempfile.mkdtemp(prefix="verif-seedsuite-")
    os.rmdir(wt)
    subprocess.run(["git", "-C", "/repo", "worktree", "add", "-q", "--detach", wt, "HEAD"], check=True)
    try:
        rc, o = sh(["git", "apply", os.path.join(d, "patch.diff")], wt)
        if rc != 0:
            print(d, "patch does not apply", o)
            return
        t0 = time.time()
        # a private network namespace: the tests bind fixed loopback ports and collide with whatever else runs here
        rc, o = sh(["unshare", "-rn", "sh", "-c", "ip link set lo up; exec go test -mod=mod -vet=off -count=1 -timeout 25m ./..."], wt)
        failed = sorted(set(re.findall(r"^--- FAIL: (\w+)", o, re.M)) - OFFLINE)
        still = []
        for t in failed:
            for k in range(3):
                if k == 0:
                    rc2, o2 = sh(["unshare", "-rn", "sh", "-c", "ip link set lo up; exec go test -mod=mod -vet=off -count=1 -timeout 10m -run '^%s$' ./..." % t], wt)
                else:   # outside the namespace (multicast tests need the host's interfaces)
                    rc2, o2 = sh(["go", "test", "-mod=mod", "-vet=off", "-count=1", "-timeout", "10m", "-run", "^%s$" % t, "./..."], wt)
                if not re.search(r"^--- FAIL: ", o2, re.M) and "[build failed]" not in o2:
                    break
            else:
                still.append(t)
        # what still fails: is it the change or the machine?  the same test alone on the unchanged tree
        env_too = []
        if still:
            sh(["git", "apply", "-R", os.path.join(d, "patch.diff")], wt)
            for t in still:
                bad = 0
                for k in range(2):
                    rc3, o3 = sh(["go", "test", "-mod=mod", "-vet=off", "-count=1", "-timeout", "10m", "-run", "^%s$" % t, "./..."], wt)
                    bad += 1 if re.search(r"^--- FAIL: ", o3, re.M) else 0
                if bad:
                    env_too.append(t)
            sh(["git", "apply", os.path.join(d, "patch.diff")], wt)
        build_failed = "[build failed]" in o or "[setup failed]" in o
        mp = os.path.join(d, "meta.json")
        meta = json.load(open(mp))
        meta["suite"] = {"cmd": "go test -mod=mod -vet=off -count=1 -timeout 25m ./... (in a private network namespace)", "failed_first_run": failed,
                         "still_failing_when_rerun_alone": still, "of_those_also_failing_alone_on_the_unchanged_tree": env_too, "build_failed": build_failed, "wall_s": round(time.time() - t0)}
        json.dump(meta, open(mp, "w"), indent=1)
        print(os.path.basename(d), "suite: first-run failures", failed, "still failing alone", still, "also on unchanged", env_too, "build_failed", build_failed)
    finally:
        subprocess.run(["git", "-C", "/repo", "worktree", "remove", "--force", wt])


if __name__ == "__main__":
    args = sys.argv[1:]
    j = 1
    if args and args[0].startswith("-j"):
        j = int(args[0][2:])
        args = args[1:]
    if j > 1:
        import multiprocessing
        with multiprocessing.Pool(j) as pool:
            pool.map(one, args)
    else:
        for d in args:
            one(d)
