#!/usr/bin/env python3
"""Binding demonstration (DESIGN.md section 9): a recorded trace of the real code is accepted by the trace
specification; the same trace with ONE logged field corrupted, or with ONE line removed, is not (TLC reports a
divergence and/or a monitor clause).  Run: python3 tools/selftest.py   (exit 0 = the binding has teeth)."""
import json
import os
import sys

sys.path.insert(0, os.path.dirname(os.path.abspath(__file__)))
import vlib  # noqa: E402
from families import coalesce, replica, lamport  # noqa: E402


def variants(ctx, tp, corrupt):
    lines = vlib.read_ndjson(tp)
    out = {}
    # 1. corrupt one observed field of a line in the middle of the first trace
    idx = next(i for i, l in enumerate(lines) if l["act"]["a"] != "reset" and corrupt(l, dry=True))
    c = json.loads(json.dumps(lines))
    corrupt(c[idx], dry=False)
    out["corrupted_field"] = c
    # 2. drop that line
    out["dropped_line"] = lines[:idx] + lines[idx + 1:]
    res = {}
    for name, ls in out.items():
        p = os.path.join(ctx.scratch, "selftest-%s.ndjson" % name)
        with open(p, "w") as f:
            for l in ls:
                f.write(json.dumps(l, separators=(",", ":")) + "\n")
        res[name] = p
    return res


def check(ctx, module, cfg, tp, corrupt, label):
    ok = True
    rep = vlib.validate(ctx, module, cfg, tp)
    clean = not rep.diverged and not rep.monitors
    print("%-10s original trace: %d lines, diverged=%d monitors=%d -> %s" % (label, rep.lines, len(rep.diverged), len(rep.monitors),
                                                                           "accepted" if clean else "NOT accepted"))
    ok &= clean
    for name, p in variants(ctx, tp, corrupt).items():
        r = vlib.validate(ctx, module, cfg, p)
        rejected = bool(r.diverged or r.monitors)
        print("%-10s %-16s diverged=%d monitors=%d -> %s" % (label, name, len(r.diverged), len(r.monitors),
                                                            "rejected" if rejected else "ACCEPTED (binding too weak)"))
        ok &= rejected
    return ok


def main():
    ctx = vlib.Ctx("selftest", "quick", 1)
    ok = True
    # coalescer: one flush output altered
    b = coalesce._build(ctx)
    scheds = [[{"a": "coalesce", "ms": [1], "k": 1}, {"a": "coalesce", "ms": [2], "k": 2}, {"a": "flush"},
               {"a": "coalesce", "ms": [1], "k": 4}, {"a": "flush"}, {"a": "flush"}]]
    tp = coalesce._exec(ctx, b, "member", 2, scheds, "st")

    def c1(l, dry):
        if l["act"]["a"] == "flush" and l["obs"]["out"]:
            if not dry:
                l["obs"]["out"][0][1] = 3
            return True
        return False
    ok &= check(ctx, "Trace_CoalesceMember", coalesce.TRACE_CFG % "CONSTANT NM = 2", tp, c1, "coalesce")
    # replica: one status time altered
    b = replica.build(ctx)
    scheds = [[{"a": "mljoin", "x": 1}, {"a": "msg", "ty": 2, "x": 1, "lt": 3, "prune": 0, "w": 0}, {"a": "mlleave", "x": 1},
               {"a": "msg", "ty": 1, "x": 1, "lt": 5, "prune": 0, "w": 0}]]
    tp = replica.execute(ctx, b, 3, scheds, "st")

    def c2(l, dry):
        if l["act"]["a"] == "msg":
            if not dry:
                l["obs"]["mem"][1]["lt"] += 1
            return True
        return False
    ok &= check(ctx, "Trace_SerfReplica", "SPECIFICATION TraceSpec\nINVARIANT Done\n" + replica.consts(3, 9, 100000), tp, c2, "replica")
    # lamport: one observed counter altered
    b = lamport.build(ctx)
    pp = os.path.join(ctx.scratch, "st-prog.ndjson")
    with open(pp, "w") as f:
        f.write(json.dumps({"id": 0, "prog": [[{"op": "wit", "v": 2}, {"op": "inc", "v": 0}], [{"op": "inc", "v": 0}]]}) + "\n")
    tp = os.path.join(ctx.scratch, "st-trace.ndjson")
    vlib.run_driver(ctx, b, ["-in", pp, "-out", tp, "-max", "31", "-budget", "3", "-random", "0"])

    def c3(l, dry):
        if l["obs"]["c"] >= 3:
            if not dry:
                l["obs"]["c"] -= 2
            return True
        return False
    ok &= check(ctx, "Trace_Lamport", lamport.TRACE_CFG, tp, c3, "lamport")
    print("SELFTEST", "OK" if ok else "FAILED")
    sys.exit(0 if ok else 1)


if __name__ == "__main__":
    main()
