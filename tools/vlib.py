"""Shared machinery for the /verif checks: scratch dirs, harness builds (with -overlay hooks),
TLC runs (exhaustive / simulate / trace validation), known findings, evidence files, verdicts.

Exit codes: 0 property held on everything explored; 1 VIOLATION (printed); 2 inconclusive
(machinery problem: build failure, TLC crash, timeout, driver died) -- never a verdict.
"""
import atexit
import json
import os
import re
import shutil
import subprocess
import sys
import tempfile
import time

VERIF = os.path.dirname(os.path.dirname(os.path.abspath(__file__)))
REPO = os.environ.get("VERIF_REPO", "/repo")
SPEC = os.path.join(VERIF, "spec")
HARNESS = os.path.join(VERIF, "harness")
HOOKS = os.path.join(VERIF, "hooks")
NCPU = os.cpu_count() or 4


class Inconclusive(Exception):
    pass


class Ctx:
    def __init__(self, prop, tier, seed):
        self.prop = prop
        self.tier = tier
        self.seed = seed
        self.t0 = time.time()
        base = os.environ.get("TMPDIR", "/tmp")
        self.scratch = tempfile.mkdtemp(prefix="verif-%s-" % prop, dir=base)
        self.keep = bool(os.environ.get("VERIF_KEEP"))
        atexit.register(self.cleanup)
        self.notes = []
        self.ntlc = 0

    def cleanup(self):
        if self.keep:
            sys.stderr.write("scratch kept: %s\n" % self.scratch)
            return
        shutil.rmtree(self.scratch, ignore_errors=True)

    def log(self, *a):
        sys.stderr.write("[%s %6.1fs] %s\n" % (self.prop, time.time() - self.t0, " ".join(str(x) for x in a)))
        sys.stderr.flush()

    def thorough(self):
        return self.tier == "thorough"

    def sub(self, name):
        p = os.path.join(self.scratch, name)
        os.makedirs(p, exist_ok=True)
        return p


def goenv():
    env = dict(os.environ)
    env["GOFLAGS"] = "-mod=mod"
    env["GOPROXY"] = "off"
    env.pop("GOSUMDB", None)
    env.pop("GOTOOLCHAIN", None)
    return env


def run(cmd, cwd=None, timeout=None, env=None, stdin=None):
    try:
        p = subprocess.run(cmd, cwd=cwd, env=env, timeout=timeout, input=stdin,
                           stdout=subprocess.PIPE, stderr=subprocess.STDOUT, text=True, errors="replace")
        return p.returncode, p.stdout
    except subprocess.TimeoutExpired as e:
        out = e.stdout or ""
        if isinstance(out, bytes):
            out = out.decode("utf-8", "replace")
        return 124, out + "\n[timeout after %ss]" % timeout


# ----------------------------------------------------------------------------- harness builds

def overlay_for(ctx, hook_pkgs=(), replaced=None):
    """hook_pkgs: list of (repo-relative package dir, hooks subdir) -- every *.go file in
    /verif/hooks/<subdir> is ADDED to that package of /repo.  replaced: {repo-relative path: file}
    for instrumented copies generated from the current working tree."""
    rep = {}
    for pkgdir, sub in hook_pkgs:
        d = os.path.join(HOOKS, sub)
        for f in sorted(os.listdir(d)):
            if f.endswith(".go"):
                rep[os.path.join(REPO, pkgdir, f)] = os.path.join(d, f)
    for rel, src in (replaced or {}).items():
        rep[os.path.join(REPO, rel)] = src
    if not rep:
        return None
    path = os.path.join(ctx.scratch, "overlay-%d.json" % len(os.listdir(ctx.scratch)))
    with open(path, "w") as f:
        json.dump({"Replace": rep}, f)
    return path


def _modfile(ctx):
    """go.mod for the harness pointing at REPO (so checks can run against a scratch copy of the repository:
    VERIF_REPO=/tmp/wt ./check ...).  Returns extra `go build` arguments."""
    if REPO == "/repo":
        return []
    mf = os.path.join(ctx.scratch, "alt.mod")
    if not os.path.exists(mf):
        with open(os.path.join(HARNESS, "go.mod")) as f:
            txt = f.read().replace("=> /repo", "=> " + REPO)
        with open(mf, "w") as f:
            f.write(txt)
        shutil.copy(os.path.join(REPO, "go.sum"), os.path.join(ctx.scratch, "alt.sum"))
    return ["-modfile=" + mf]


def go_build(ctx, cmd, overlay=None, tags="verif", name=None):
    """Builds harness/cmd/<cmd> against REPO's current working tree (default /repo)."""
    hs = os.path.join(HARNESS, "go.sum")
    if not os.path.exists(hs):
        shutil.copy(os.path.join(REPO, "go.sum"), hs)
    out = os.path.join(ctx.scratch, name or ("bin-" + cmd))
    args = ["go", "build", "-tags", tags] + _modfile(ctx)
    if overlay:
        args += ["-overlay", overlay]
    args += ["-o", out, "./cmd/" + cmd]
    rc, o = run(args, cwd=HARNESS, env=goenv(), timeout=900)
    if rc != 0:
        raise Inconclusive("harness build failed (%s):\n%s" % (cmd, o[-4000:]))
    ctx.log("built harness", cmd)
    return out


def instrument(ctx, spec):
    """Runs the go/ast yield instrumenter on files of /repo's working tree.
    spec: list of dicts {file: repo-relative path, funcs: [names] or ["*"], pkgvar: hook var prefix}
    Returns {repo-relative path: instrumented copy}."""
    tool = os.path.join(ctx.scratch, "bin-instrument")
    if not os.path.exists(tool):
        rc, o = run(["go", "build", "-o", tool, "./cmd/instrument"], cwd=HARNESS, env=goenv(), timeout=600)
        if rc != 0:
            raise Inconclusive("instrumenter build failed:\n" + o[-3000:])
    outdir = ctx.sub("instrumented")
    res = {}
    for i, s in enumerate(spec):
        src = os.path.join(REPO, s["file"])
        dst = os.path.join(outdir, "%d_%s" % (i, os.path.basename(s["file"])))
        args = [tool, "-in", src, "-out", dst, "-funcs", ",".join(s.get("funcs", ["*"]))]
        if s.get("locks", True):
            args.append("-locks")
        if s.get("require"):
            args += ["-require", ",".join(s["require"])]
        rc, o = run(args, timeout=60)
        if rc != 0:
            raise Inconclusive("instrumenter failed on %s:\n%s" % (s["file"], o[-3000:]))
        res[s["file"]] = dst
    return res


# ----------------------------------------------------------------------------- TLC

class TLCResult:
    def __init__(self):
        self.rc = None
        self.out = ""
        self.generated = 0
        self.distinct = 0
        self.ok = False
        self.violated = None      # name of violated invariant/property, if any
        self.wall = 0.0
        self.dir = None


_STATS = re.compile(r"(\d+) states generated, (\d+) distinct states found")


def tlc(ctx, module, cfg, mode="check", workers=None, timeout=900, files=None, extra=None,
        sim_num=None, sim_depth=None, seed=None, deadlock=False, dfs=False, heap=None):
    """Runs TLC on spec/<module>.tla with cfg (text) in a private copy of the spec directory.
    files: {name: text or path-prefixed '@/abs/path'} additional files put next to the spec."""
    ctx.ntlc += 1
    d = ctx.sub("tlc%d" % ctx.ntlc)
    for f in os.listdir(SPEC):
        if f.endswith(".tla"):
            shutil.copy(os.path.join(SPEC, f), d)
    for name, content in (files or {}).items():
        if isinstance(content, str) and content.startswith("@/"):
            shutil.copy(content[1:], os.path.join(d, name))
        else:
            with open(os.path.join(d, name), "w") as f:
                f.write(content)
    with open(os.path.join(d, module + ".cfg"), "w") as f:
        f.write(cfg)
    if workers is None:
        workers = NCPU
    jopts = "-Xss512m"
    if heap:
        jopts += " -Xmx" + heap
    if dfs:
        jopts += " -Dtlc2.tool.queue.IStateQueue=StateDeque"
    cmd = ["java", "-XX:+UseParallelGC"] + jopts.split() + [
        "-cp", "/opt/veriftools/tla/tla2tools.jar:/opt/veriftools/tla/CommunityModules-deps.jar",
        "tlc2.TLC", "-workers", str(workers), "-metadir", os.path.join(d, "meta"),
        "-config", module + ".cfg"]
    if not deadlock:
        cmd.append("-deadlock")
    if mode == "simulate":
        cmd += ["-simulate", "num=%d" % sim_num, "-depth", str(sim_depth)]
    if seed is not None:
        cmd += ["-seed", str(seed)]
    cmd += (extra or [])
    cmd.append(module + ".tla")
    t0 = time.time()
    env = dict(os.environ)
    env.pop("JAVA_TOOL_OPTIONS", None)
    rc, out = run(cmd, cwd=d, timeout=timeout, env=env)
    r = TLCResult()
    r.rc, r.out, r.wall, r.dir = rc, out, time.time() - t0, d
    m = None
    for m in _STATS.finditer(out):
        pass
    if m:
        r.generated, r.distinct = int(m.group(1)), int(m.group(2))
    mv = re.search(r"Error: Invariant (\S+) is violated", out) or \
        re.search(r"Error: Action property (\S+) is violated", out) or \
        re.search(r"Error: Temporal properties were violated", out)
    if mv:
        r.violated = mv.group(1) if mv.groups() else "temporal"
    r.ok = (rc == 0 and "Error:" not in out)
    if rc == 124:
        raise Inconclusive("TLC timed out on %s after %ss" % (module, timeout))
    if not r.ok and not r.violated:
        raise Inconclusive("TLC failed on %s (rc=%s):\n%s" % (module, rc, out[-6000:]))
    ctx.log("tlc %s %s: generated=%d distinct=%d %.1fs%s" % (
        module, mode, r.generated, r.distinct, r.wall, " VIOLATED " + r.violated if r.violated else ""))
    return r


def apalache(ctx, module, args, timeout=600):
    """Runs `apalache-mc check <args> <module>.tla` in a private copy of the spec directory.
    Returns 'ok' (NoError), 'cex' (a counterexample to the invariant was found); anything else is Inconclusive."""
    ctx.ntlc += 1
    d = ctx.sub("apa%d" % ctx.ntlc)
    shutil.copy(os.path.join(SPEC, module + ".tla"), d)
    cmd = ["apalache-mc", "check", "--out-dir=" + os.path.join(d, "out")] + list(args) + [module + ".tla"]
    env = dict(os.environ)
    env.pop("JAVA_TOOL_OPTIONS", None)
    t0 = time.time()
    rc, out = run(cmd, cwd=d, timeout=timeout, env=env)
    if rc == 124:
        raise Inconclusive("apalache timed out on %s %s" % (module, " ".join(args)))
    if "The outcome is: NoError" in out and rc == 0:
        res = "ok"
    elif "The outcome is: Error" in out and rc == 12:
        res = "cex"
    else:
        raise Inconclusive("apalache failed on %s (rc=%s):\n%s" % (module, rc, out[-4000:]))
    ctx.log("apalache %s %s: %s %.1fs" % (module, " ".join(args), res, time.time() - t0))
    return res


_PRINT = re.compile(r'^<<\s*"([A-Z]+)",\s*(.*?)\s*>>\s*$', re.S)


def tla_unquote(s):
    """TLA+ string literal as printed by TLC -> python str."""
    assert s[0] == '"' and s[-1] == '"', s
    return json.loads(s)


def printed(out, tag):
    """Yields the payload text of lines PrintT(<<tag, ...>>) produced.  TLC wraps values wider than 80
    columns over several lines: a tuple is complete when its brackets balance."""
    lines = out.splitlines()
    i = 0
    start = re.compile(r'^<<\s*"([A-Z]+)",')
    while i < len(lines):
        m = start.match(lines[i])
        if not m:
            i += 1
            continue
        buf = lines[i]
        j = i
        while _depth(buf) > 0 and j + 1 < len(lines) and j - i < 400:
            j += 1
            buf += " " + lines[j].strip()
        i = j + 1
        mm = _PRINT.match(buf)
        if mm and mm.group(1) == tag:
            yield mm.group(2)


def _depth(s):
    d, instr, esc = 0, False, False
    for ch in s:
        if instr:
            if esc:
                esc = False
            elif ch == "\\":
                esc = True
            elif ch == '"':
                instr = False
            continue
        if ch == '"':
            instr = True
        elif ch in "<[{(":
            d += 1
        elif ch in ">]})":
            d -= 1
    return d


def split_top(s):
    """Splits a TLA+ tuple body on top-level commas (strings respected)."""
    parts, depth, cur, instr, esc = [], 0, "", False, False
    for ch in s:
        if instr:
            cur += ch
            if esc:
                esc = False
            elif ch == "\\":
                esc = True
            elif ch == '"':
                instr = False
            continue
        if ch == '"':
            instr = True
            cur += ch
        elif ch in "<[{(":
            depth += 1
            cur += ch
        elif ch in ">]})":
            depth -= 1
            cur += ch
        elif ch == "," and depth == 0:
            parts.append(cur.strip())
            cur = ""
        else:
            cur += ch
    if cur.strip():
        parts.append(cur.strip())
    return parts


def sim_schedules(r):
    """From a simulate run whose Emit invariant printed <<"SCHED", steps, ToJson(last)>> at every
    state of every behaviour (workers=1): list of schedules (lists of action records)."""
    scheds, cur = [], None
    for body in printed(r.out, "SCHED"):
        parts = split_top(body)
        step = int(parts[0])
        act = json.loads(tla_unquote(parts[1]))
        if step == 0:
            if cur:
                scheds.append(cur)
            cur = []
        else:
            if cur is None:
                cur = []
            # TLC re-evaluates the invariant when it re-generates a state; keep one record per step
            if len(cur) >= step:
                cur = cur[:step - 1]
            cur.append(act)
    if cur:
        scheds.append(cur)
    return scheds


def edge_schedules(r):
    """From a BFS run whose action constraint printed <<"EDGE", ToJson(hist')>>: list of schedules."""
    res = []
    for body in printed(r.out, "EDGE"):
        res.append(json.loads(tla_unquote(split_top(body)[0])))
    return res


# ----------------------------------------------------------------------------- driver + traces

def write_schedules(path, scheds, start_id=0):
    with open(path, "w") as f:
        for i, s in enumerate(scheds):
            f.write(json.dumps({"id": start_id + i, "steps": s}, separators=(",", ":")) + "\n")


def run_driver(ctx, binary, args, timeout=900, env=None):
    e = dict(os.environ)
    e["VERIF_SEED"] = str(ctx.seed)
    e.update(env or {})
    rc, out = run([binary] + args, timeout=timeout, env=e)
    if rc == 124:
        raise Inconclusive("driver timed out: %s %s" % (binary, args))
    return rc, out


def read_ndjson(path):
    res = []
    with open(path) as f:
        for line in f:
            line = line.strip()
            if line:
                res.append(json.loads(line))
    return res


class TraceReport:
    def __init__(self):
        self.lines = 0
        self.traces = 0
        self.done = False
        self.diverged = []     # [(trace id, line no)]
        self.monitors = []     # [(trace id, line no, [clauses], [ctx tags])]
        self.tlc = None


def validate(ctx, module, cfg, trace_path, timeout=1800, files=None, dfs=False):
    """Runs the trace spec over an NDJSON trace file (copied next to the spec as trace.ndjson).
    The trace spec prints <<"DIVERGE", l>>, <<"MONITOR", l, clauses, tags>> and <<"DONE", l>>."""
    lines = read_ndjson(trace_path)
    ids = []
    cur = None
    for ln in lines:
        if ln["act"]["a"] == "reset":
            cur = ln["act"]["id"]
        ids.append(cur)
    fl = dict(files or {})
    fl["trace.ndjson"] = "@" + trace_path
    r = tlc(ctx, module, cfg, workers=1, timeout=timeout, files=fl, dfs=dfs)
    rep = TraceReport()
    rep.tlc = r
    rep.lines = len(lines)
    rep.traces = len(set(ids))
    if r.violated:
        raise Inconclusive("trace spec %s reported %s (monitors are reported by PrintT, so this is a "
                           "machinery error):\n%s" % (module, r.violated, r.out[-3000:]))
    seen = set()
    for body in printed(r.out, "DIVERGE"):
        l = int(split_top(body)[0])
        if ("d", l) not in seen:
            seen.add(("d", l))
            rep.diverged.append((ids[l - 1], l))
    for body in printed(r.out, "MONITOR"):
        parts = split_top(body)
        l = int(parts[0])
        if ("m", l, parts[1]) in seen:
            continue
        seen.add(("m", l, parts[1]))
        clauses = re.findall(r'"([^"]*)"', parts[1])
        tags = re.findall(r'"([^"]*)"', parts[2]) if len(parts) > 2 else []
        rep.monitors.append((ids[l - 1], l, clauses, tags))
    for body in printed(r.out, "DONE"):
        if int(split_top(body)[0]) == len(lines) + 1:
            rep.done = True
    if not rep.done:
        raise Inconclusive("trace spec %s did not consume the whole trace (%d lines):\n%s" % (
            module, len(lines), r.out[-3000:]))
    ctx.log("validated %d lines / %d traces: %d diverged, %d monitor reports" % (
        rep.lines, rep.traces, len(rep.diverged), len(rep.monitors)))
    return rep


# ----------------------------------------------------------------------------- known findings

def known_findings(prop):
    p = os.path.join(VERIF, "known_findings.json")
    if not os.path.exists(p):
        return []
    with open(p) as f:
        data = json.load(f)
    return [k for k in data.get("findings", []) if k["property"] == prop]


def classify(prop, violations):
    """violations: list of dicts with 'clauses' (list) and 'tags' (list).
    A violation is covered by a known (status 'known') finding iff one of its clauses is listed in the
    finding and every tag the finding requires is present.  'fixed' entries cover nothing."""
    kf = [k for k in known_findings(prop) if k.get("status") == "known"]
    new, known = [], {}
    for v in violations:
        hit = None
        for k in kf:
            if set(v["clauses"]) <= set(k.get("clauses", [])) and set(k.get("requires_tags", [])) <= set(v.get("tags", [])):
                hit = k
                break
        if hit:
            known.setdefault(hit["id"], []).append(v)
        else:
            new.append(v)
    return new, known


# ----------------------------------------------------------------------------- evidence, verdict

def write_evidence(ctx, level, coverage, assumptions, violations):
    os.makedirs(os.path.join(VERIF, "evidence"), exist_ok=True)
    ev = {
        "property_id": ctx.prop,
        "tier": ctx.tier,
        "seed": ctx.seed,
        "level": level,
        "coverage": coverage,
        "assumptions": assumptions,
        "wall_s": round(time.time() - ctx.t0, 2),
        "violations": violations,
    }
    # runs against another tree (mutants, seeded changes: VERIF_REPO) and replays must not overwrite the evidence
    # of the registered check on /repo
    sub = ("evidence" if REPO == "/repo" and not getattr(ctx, "replaying", False) and not os.environ.get("VERIF_EVIDENCE_ASIDE")
           else os.path.join(".build", "evidence-other"))
    os.makedirs(os.path.join(VERIF, sub), exist_ok=True)
    path = os.path.join(VERIF, sub, ctx.prop + ".json")
    tmp = path + ".tmp"
    with open(tmp, "w") as f:
        json.dump(ev, f, indent=1, sort_keys=True)
        f.write("\n")
    os.replace(tmp, path)
    return path


def save_replay(ctx, name, obj):
    d = os.path.join(VERIF, "replays")
    os.makedirs(d, exist_ok=True)
    path = os.path.join(d, "%s-%s.json" % (ctx.prop, name))
    with open(path, "w") as f:
        json.dump(obj, f, indent=1)
        f.write("\n")
    return path


def finish(ctx, level, coverage, assumptions, new_violations, known_hits, replay_of=None):
    """Prints KNOWN-FINDING / VIOLATION lines, writes evidence, exits."""
    for kid, vs in sorted(known_hits.items()):
        k = [x for x in known_findings(ctx.prop) if x["id"] == kid][0]
        print("KNOWN-FINDING: property=%s %s (%s; %d occurrence(s) this run)" % (
            ctx.prop, k["what"], kid, len(vs)))
    coverage = dict(coverage)
    coverage["known_finding_occurrences"] = {k: len(v) for k, v in known_hits.items()}
    write_evidence(ctx, level, coverage, assumptions, len(new_violations))
    if new_violations:
        v = new_violations[0]
        path = save_replay(ctx, "violation", v)
        print("VIOLATION property=%s replay=%s" % (ctx.prop, path))
        for x in new_violations[:5]:
            print("  clauses=%s tags=%s schedule=%s" % (x.get("clauses"), x.get("tags"),
                                                       json.dumps(x.get("schedule"))[:400]))
        sys.stdout.flush()
        sys.exit(1)
    print("OK property=%s tier=%s seed=%d wall=%.1fs" % (ctx.prop, ctx.tier, ctx.seed, time.time() - ctx.t0))
    sys.stdout.flush()
    sys.exit(0)


# ----------------------------------------------------------------------------- TLA+ value parser

_TOK = re.compile(r'\s*(<<|>>|\|->|:>|@@|[\[\]{}(),]|"(?:[^"\\]|\\.)*"|-?\d+|[A-Za-z_][A-Za-z0-9_]*)')


def parse_tla(text):
    """Parses a TLA+ value as printed by TLC into python: tuples/sets -> list, records and
    functions -> dict, strings, ints, booleans."""
    toks = _TOK.findall(text)
    pos = [0]

    def peek():
        return toks[pos[0]] if pos[0] < len(toks) else None

    def eat(t=None):
        x = toks[pos[0]]
        if t is not None and x != t:
            raise ValueError("expected %s got %s in %s" % (t, x, text[:200]))
        pos[0] += 1
        return x

    def val():
        t = eat()
        if t == "<<":
            res = []
            while peek() != ">>":
                res.append(val())
                if peek() == ",":
                    eat()
            eat(">>")
            return res
        if t == "{":
            res = []
            while peek() != "}":
                res.append(val())
                if peek() == ",":
                    eat()
            eat("}")
            return res
        if t == "[":
            res = {}
            while peek() != "]":
                k = eat()
                eat("|->")
                res[k] = val()
                if peek() == ",":
                    eat()
            eat("]")
            return res
        if t == "(":
            res = {}
            while peek() != ")":
                k = val()
                eat(":>")
                res[k if isinstance(k, (str, int)) else json.dumps(k)] = val()
                if peek() == "@@":
                    eat()
            eat(")")
            return res
        if t[0] == '"':
            return json.loads(t)
        if t == "TRUE":
            return True
        if t == "FALSE":
            return False
        if re.match(r"-?\d+$", t):
            return int(t)
        return t  # model value / identifier

    return val()


def behaviour_files(prefix_dir, prefix):
    fs = [f for f in os.listdir(prefix_dir) if f.startswith(prefix + "_")]
    def key(f):
        a = f[len(prefix) + 1:].split("_")
        return tuple(int(x) for x in a)
    return [os.path.join(prefix_dir, f) for f in sorted(fs, key=key)]


_CONJ = re.compile(r"^/\\ (\w+) = ", re.M)


def parse_behaviour(path, var="last", counter="steps"):
    """One `-simulate file=` behaviour file -> list of the values of `var`, one per state.  If the spec
    has a variable `counter`, only states in which it increased are kept (plus the initial state), so
    generator-only steps (kind selection, skips) do not show up in schedules."""
    with open(path) as f:
        text = f.read()
    res = []
    prev = None
    for st in re.split(r"^STATE_\d+ ==\s*$", text, flags=re.M)[1:]:
        ms = list(_CONJ.finditer(st))
        vals = {}
        for i, m in enumerate(ms):
            if m.group(1) in (var, counter):
                end = ms[i + 1].start() if i + 1 < len(ms) else len(st)
                body = st[m.end():end]
                body = re.split(r"^\\\*|^====", body, flags=re.M)[0]
                vals[m.group(1)] = parse_tla(body)
        if counter in vals:
            if prev is not None and vals[counter] == prev:
                continue
            prev = vals[counter]
        if var in vals:
            res.append(vals[var])
    return res


def simulate_schedules(ctx, module, cfg, num, depth, seed=None, timeout=900, workers=None):
    """num behaviours in total, generated by `workers` simulation workers (num is per worker in TLC)."""
    workers = workers or min(NCPU, max(1, num // 8))
    per = (num + workers - 1) // workers
    ctx.ntlc += 1
    bdir = ctx.sub("beh%d" % ctx.ntlc)
    prefix = os.path.join(bdir, "b")
    # file=... is part of the -simulate argument
    d_seed = seed if seed is not None else ctx.seed
    r = _tlc_sim_files(ctx, module, cfg, per, depth, d_seed, prefix, timeout, workers)
    scheds = []
    for f in behaviour_files(bdir, "b"):
        vals = parse_behaviour(f)
        if len(vals) > 1:
            scheds.append(vals[1:])
    shutil.rmtree(bdir, ignore_errors=True)
    ctx.log("simulated %d behaviours (depth<=%d) from %s" % (len(scheds), depth, module))
    return r, scheds


def _tlc_sim_files(ctx, module, cfg, num, depth, seed, prefix, timeout, workers=1):
    d = ctx.sub("tlc%d" % ctx.ntlc)
    for f in os.listdir(SPEC):
        if f.endswith(".tla"):
            shutil.copy(os.path.join(SPEC, f), d)
    with open(os.path.join(d, module + ".cfg"), "w") as f:
        f.write(cfg)
    cmd = ["java", "-XX:+UseParallelGC", "-Xss512m",
           "-cp", "/opt/veriftools/tla/tla2tools.jar:/opt/veriftools/tla/CommunityModules-deps.jar",
           "tlc2.TLC", "-workers", str(workers), "-metadir", os.path.join(d, "meta"), "-deadlock",
           "-config", module + ".cfg", "-simulate", "file=%s,num=%d" % (prefix, num),
           "-depth", str(depth), "-seed", str(seed), module + ".tla"]
    env = dict(os.environ)
    env.pop("JAVA_TOOL_OPTIONS", None)
    t0 = time.time()
    rc, out = run(cmd, cwd=d, timeout=timeout, env=env)
    r = TLCResult()
    r.rc, r.out, r.wall, r.dir = rc, out, time.time() - t0, d
    m = re.search(r"The number of states generated: (\d+)", out)
    if m:
        r.generated = int(m.group(1))
    if rc == 124:
        raise Inconclusive("TLC simulate timed out on %s" % module)
    if rc != 0 or "Error:" in out:
        raise Inconclusive("TLC simulate failed on %s:\n%s" % (module, out[-4000:]))
    r.ok = True
    return r
